//go:build verif

package dkg

// C07 harness, unit "start": the beginning of the real Executor.Execute (member
// construction, exclusion as disqualification, AsyncMachine with the first two states)
// under the cooperative scheduler: every interleaving (preemption bound 2 / 3, virtual
// clock whose transition ticks fire when nothing else can run - tick timing is C15's subject) of the machine's receive loop, its per-state Initiate/transition goroutine and
// a network thread that delivers the genuine first-phase messages of the other operating
// members together with validly keyed messages of the excluded members and a message of
// another session - some of them already pending when the machine registers its handler.
// The pre-parameter pool is empty, so Execute ends where the expensive TSS rounds would
// begin ("cannot initialize TSS round one member: pool is empty"): the whole exploration
// is about the window in which the first state is set up, which units "states" (lock
// step) and "exec" (free running) cannot enumerate.

import (
	"context"
	"encoding/json"
	"errors"
	"fmt"
	"math/big"
	"sort"
	"strings"
	"testing"
	"time"

	"github.com/keep-network/keep-core/internal/testutils"
	"github.com/keep-network/keep-core/pkg/generator"
	"github.com/keep-network/keep-core/pkg/net"
	"github.com/keep-network/keep-core/pkg/protocol/group"
	"github.com/keep-network/keep-core/pkg/verifshim/vctx"
	"github.com/keep-network/keep-core/pkg/verifshim/vrep"
	"github.com/keep-network/keep-core/pkg/verifshim/vsched"
	"github.com/keep-network/keep-core/pkg/verifshim/vtime"
)

// c07Watched is a network message that records when its payload is looked at. A state
// looks at the payload once, in Receive, to decide on admission; only a message that was
// put into the history is looked at again (by CanTransition and by the next state).
type c07Watched struct {
	c07Msg
	label string
	looks []int64 // virtual time of every Payload() call
}

func (m *c07Watched) Payload() interface{} {
	m.looks = append(m.looks, vtime.Now().UnixNano())
	return m.payload
}

func (m *c07Watched) readAgain() bool {
	for _, t := range m.looks {
		if t != m.looks[0] {
			return true
		}
	}
	return false
}

type c07StartReg struct {
	ctx context.Context
	h   func(net.Message)
}

type c07StartChan struct {
	pending []*c07Watched // handed over inside Recv (backlog of a late handler)
	regs    []*c07StartReg
	sent    []message
}

func (c *c07StartChan) Name() string { return "c07-start" }
func (c *c07StartChan) Send(_ context.Context, m net.TaggedMarshaler, _ ...net.RetransmissionStrategy) error {
	vsched.Yield()
	if pm, ok := m.(message); ok {
		c.sent = append(c.sent, pm)
	}
	return nil
}
func (c *c07StartChan) Recv(ctx context.Context, h func(net.Message)) {
	vsched.Yield()
	c.regs = append(c.regs, &c07StartReg{ctx, h})
	for _, m := range c.pending {
		h(m)
	}
	vsched.Yield()
}
func (c *c07StartChan) SetUnmarshaler(func() net.TaggedUnmarshaler) {}
func (c *c07StartChan) SetFilter(net.BroadcastChannelFilter) error  { return nil }
func (c *c07StartChan) deliver(m *c07Watched) {
	for _, r := range c.regs {
		if r.ctx.Err() == nil {
			r.h(m)
		}
	}
}

type c07StartScenario struct {
	Cfg  c07Cfg `json:"cfg"`
	Seat int    `json:"seat"`
	// Order is the delivery order of the message list (see c07StartMessages); the
	// first Pending of them are already waiting when the handler is registered.
	Order   []int `json:"order"`
	Pending int   `json:"pending"`
	// Forged: false = only the genuine messages (baseline of the differential oracle).
	Forged bool `json:"forged"`
}

func (sc c07StartScenario) String() string {
	return fmt.Sprintf("start %s seat=%d order=%v pending=%d forged=%v", sc.Cfg, sc.Seat, sc.Order, sc.Pending, sc.Forged)
}

// c07FirstMessage is the first-phase message seat produces; an excluded seat does not
// know about its exclusion (it sees everybody as operating).
func c07FirstMessage(cfg c07Cfg, seat int, validator *group.MembershipValidator, session string) message {
	m := newMember(&testutils.MockLogger{}, big.NewInt(200), group.MemberIndex(seat), cfg.N, cfg.N-cfg.H,
		validator, session, func() (*PreParams, error) { return nil, generator.ErrEmptyPool }, 1)
	if !cfg.isExcluded(seat) {
		for _, e := range cfg.excludedIndexes() {
			m.group.MarkMemberAsDisqualified(e)
		}
	}
	msg, err := m.initializeEphemeralKeysGeneration().generateEphemeralKeyPair()
	if err != nil {
		panic(err)
	}
	out, ok := c07RoundTrip(msg)
	if !ok {
		panic("first-phase message does not survive the wire format")
	}
	return out
}

// c07StartMessages: genuine messages of the other operating members, then (Forged) one
// message per excluded member - its own seat, its own valid key, the right session - and
// one message of the first other operating member for another session.
func c07StartMessages(sc c07StartScenario, validator *group.MembershipValidator) []*c07Watched {
	cfg := sc.Cfg
	typ := (&ephemeralPublicKeyMessage{}).Type()
	var ms []*c07Watched
	for _, s := range cfg.operating() {
		if s != sc.Seat {
			ms = append(ms, &c07Watched{c07Msg: c07Msg{payload: c07FirstMessage(cfg, s, validator, c07Session), key: cfg.key(s), typ: typ, sender: s},
				label: fmt.Sprintf("genuine(%d)", s)})
		}
	}
	if !sc.Forged {
		return ms
	}
	for _, e := range cfg.Excluded {
		ms = append(ms, &c07Watched{c07Msg: c07Msg{payload: c07FirstMessage(cfg, e, validator, c07Session), key: cfg.key(e), typ: typ, injected: "excluded"},
			label: fmt.Sprintf("excluded(%d)", e)})
	}
	for _, s := range cfg.operating() {
		if s != sc.Seat {
			ms = append(ms, &c07Watched{c07Msg: c07Msg{payload: c07FirstMessage(cfg, s, validator, c07OtherSession), key: cfg.key(s), typ: typ, injected: "other-session"},
				label: fmt.Sprintf("other-session(%d)", s)})
			break
		}
	}
	return ms
}

type c07StartResult struct {
	msgs     []*c07Watched
	ch       *c07StartChan
	res      *Result
	err      error
	returned bool
}

func c07StartBody(sc c07StartScenario, out *c07StartResult) func() {
	return func() {
		*out = c07StartResult{}
		cfg := sc.Cfg
		validator := cfg.validator()
		all := c07StartMessages(sc, validator)
		var ordered []*c07Watched
		for _, i := range sc.Order {
			if i < len(all) {
				ordered = append(ordered, all[i])
			}
		}
		out.msgs = ordered
		ch := &c07StartChan{}
		pending := sc.Pending
		if pending > len(ordered) {
			pending = len(ordered)
		}
		ch.pending = ordered[:pending]
		out.ch = ch
		logger := &testutils.MockLogger{}
		ex := c07EmptyPoolExecutor()
		ctx, cancel := vctx.WithCancel(context.Background())
		vsched.GoLow("network", func() {
			// every message reaches every member at least once (retransmissions): the
			// network hands a message over only once the member listens
			vsched.Block("handler registered", func() bool { return len(ch.regs) > 0 })
			for _, m := range ordered[pending:] {
				ch.deliver(m)
				vsched.Yield()
			}
		})
		out.res, out.err = ex.Execute(ctx, logger, big.NewInt(200), c07Session, group.MemberIndex(sc.Seat),
			cfg.N, cfg.N-cfg.H, cfg.excludedIndexes(), ch, validator)
		out.returned = true
		cancel()
	}
}

var c07EmptyExecutor *Executor

// c07EmptyPoolExecutor is a real Executor whose pool is empty and never generates
// anything (one per process: the pool's worker goroutine lives outside the scheduler and
// only waits for a context that is never cancelled).
func c07EmptyPoolExecutor() *Executor {
	if c07EmptyExecutor == nil {
		logger := &testutils.MockLogger{}
		pool := generator.NewParameterPool[PreParams](logger, &generator.Scheduler{}, &c07Persist{}, 1,
			func(ctx context.Context) *PreParams { <-ctx.Done(); return nil }, time.Hour)
		c07EmptyExecutor = &Executor{tssPreParamsPool: &tssPreParamsPool{pool, logger}, keyGenerationConcurrency: 1}
	}
	return c07EmptyExecutor
}

type c07StartReplay struct {
	Scenario c07StartScenario `json:"start_scenario"`
	Choices  []int            `json:"choices"`
	Bound    int              `json:"bound"`
}

// c07StartOutcome is what the differential oracle compares: how Execute ended and what
// the member put on the channel.
func c07StartOutcome(sc c07StartScenario, s *vsched.Sched, out *c07StartResult) string {
	var b strings.Builder
	switch {
	case !out.returned && s.HorizonHit:
		b.WriteString("still-waiting")
	case !out.returned:
		b.WriteString("stuck")
	case out.err == nil:
		b.WriteString("result")
	case errors.Is(out.err, generator.ErrEmptyPool):
		b.WriteString("reached-tss-round-one")
	default:
		b.WriteString("error: " + out.err.Error())
	}
	for _, m := range out.ch.sent {
		var to []int
		if e, ok := m.(*ephemeralPublicKeyMessage); ok {
			for k := range e.ephemeralPublicKeys {
				to = append(to, int(k))
			}
			sort.Ints(to)
		}
		fmt.Fprintf(&b, " sent:%s->%v", c07Short(m.Type()), to)
	}
	return b.String()
}

func c07StartEvaluate(r *vrep.R, sc c07StartScenario, bound int, s *vsched.Sched, out *c07StartResult, baseline string) {
	r.Eval(1)
	r.Transition(len(s.Choices()) + 1)
	rp := c07StartReplay{sc, s.Choices(), bound}
	fail := func(kind, what string) {
		r.ViolationMin("start-"+kind, len(s.Choices()), fmt.Sprintf("%s %s", sc, kind), what+" [schedule "+s.Trace()+"]", rp)
	}
	if p, stack := s.Failed(); p != nil {
		fail("panic", fmt.Sprintf("panic: %v\n%s", p, stack))
		return
	}
	if s.StepCapHit {
		r.Cap("step-cap")
		return
	}
	oc := c07StartOutcome(sc, s, out)
	for _, m := range out.msgs {
		if m.injected != "" && m.readAgain() {
			fail("history", fmt.Sprintf("member %d read the message %s again after deciding on its admission (looked at it at virtual times %v): it is in the member's message history", sc.Seat, m.label, m.looks))
		}
		if m.injected == "" && len(m.looks) == 0 && out.returned {
			fail("genuine-unread", fmt.Sprintf("the genuine message %s was never handed to a state", m.label))
		}
	}
	if baseline != "" && oc != baseline {
		fail("outcome", fmt.Sprintf("with the messages of excluded members / another session Execute of member %d ended as %q, without them as %q", sc.Seat, oc, baseline))
	}
	r.Outcome("start: " + oc)
	r.State(fmt.Sprintf("%s|%s", sc, oc))
	if s.Trace() != "" {
		r.Distinct(fmt.Sprintf("%s|%v", sc, s.Choices()))
	}
}

func c07StartScenarios(thorough bool) []c07StartScenario {
	var scs []c07StartScenario
	add := func(cfg c07Cfg, seat int, orders [][]int) {
		n := len(c07StartMessages(c07StartScenario{Cfg: cfg, Seat: seat, Forged: true}, cfg.validator()))
		for _, o := range orders {
			for p := 0; p <= n; p++ {
				scs = append(scs, c07StartScenario{Cfg: cfg, Seat: seat, Order: o, Pending: p, Forged: true})
			}
		}
	}
	// 2-of-3, seat 3 excluded: messages 0 genuine(other), 1 excluded(3), 2 other-session
	three := c07Cfg{N: 3, H: 2, Excluded: []int{3}}
	perms3 := [][]int{{1, 0, 2}, {1, 2, 0}, {0, 1, 2}, {2, 1, 0}, {0, 2, 1}, {2, 0, 1}}
	add(three, 1, perms3)
	if thorough {
		add(three, 2, perms3)
		add(c07Cfg{N: 3, H: 2, Excluded: []int{1}}, 2, perms3)
		// 3-of-5, seats 2 and 5 excluded, member 1: 0,1 genuine(3,4), 2,3 excluded(2,5), 4 other-session(3)
		five := c07Cfg{N: 5, H: 3, Excluded: []int{2, 5}}
		add(five, 1, [][]int{{2, 3, 4, 0, 1}, {2, 0, 3, 1, 4}, {0, 2, 1, 3, 4}, {4, 3, 2, 1, 0}})
	}
	return scs
}

func TestVerifC07Start(t *testing.T) {
	r := vrep.Start(t, "C07", "start")
	defer r.Finish()
	var out c07StartResult
	opts := func(bound int) vsched.Options {
		return vsched.Options{Bound: bound, Horizon: 8, Stop: r.Expired}
	}
	baselineOf := func(sc c07StartScenario) string {
		b := sc
		b.Forged = false
		s := vsched.Replay(nil, opts(0), c07StartBody(b, &out))
		return c07StartOutcome(b, s, &out)
	}
	if rd := r.ReplayData(); rd != nil {
		var rp c07StartReplay
		if json.Unmarshal(rd, &rp) == nil && rp.Scenario.Cfg.N > 0 {
			base := baselineOf(rp.Scenario)
			s := vsched.Replay(rp.Choices, opts(rp.Bound), c07StartBody(rp.Scenario, &out))
			c07StartEvaluate(r, rp.Scenario, rp.Bound, s, &out, base)
		}
		return
	}
	maxBound := 2
	if r.Thorough() {
		maxBound = 3
	}
	scs := c07StartScenarios(r.Thorough())
	r.Set("start_scenarios", len(scs))
	for i, sc := range scs {
		if !r.Mine(i) {
			continue
		}
		base := baselineOf(sc)
		if !strings.HasPrefix(base, "reached-tss-round-one") {
			t.Fatalf("baseline of %s did not reach TSS round one: %s", sc, base)
		}
		if i == 0 {
			a := vsched.Replay(nil, opts(0), c07StartBody(sc, &out))
			oa := c07StartOutcome(sc, a, &out)
			b := vsched.Replay(nil, opts(0), c07StartBody(sc, &out))
			if !vsched.SameRun(a, b) || oa != c07StartOutcome(sc, b, &out) {
				t.Fatalf("NONDETERMINISM: two runs of the empty script differ")
			}
			r.ReplayedTwice(1)
			r.Sample(map[string]any{"scenario": sc.String(), "outcome": oa, "baseline": base})
		}
		for bound := 0; bound <= maxBound; bound++ {
			st := vsched.Explore(opts(bound), c07StartBody(sc, &out), func(s *vsched.Sched) { c07StartEvaluate(r, sc, bound, s, &out, base) })
			if bound == maxBound {
				r.Add("start_execs_at_max_bound", st.Execs)
			}
			if st.Stopped {
				r.Cap(fmt.Sprintf("%s bound %d not completed", sc, bound))
			}
		}
	}
	r.Set("start_max_preemption_bound", maxBound)
}
