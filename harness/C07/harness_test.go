//go:build verif

package dkg

// C07 harness, unit "states": the real tECDSA DKG state objects (states.go) of every
// participating member are driven in lock-step over a harness broadcast channel:
// Initiate (all members of a step in parallel - they are independent objects),
// routing of what was sent (every message carries the sender's operator key, so the
// real shouldAcceptMessage / MembershipValidator / session checks decide), Receive,
// CanTransition, Next. tss-lib does the real key generation with the five fixture
// pre-parameters of pkg/internal/tecdsatest (no safe-prime generation).
//
// Enumerated: group configurations x every exclusion set that leaves >= the honest
// threshold x delivery policies (x victim) x {without, with} injected messages.
// AsyncMachine interleavings themselves are C15's subject.

import (
	"context"
	"encoding/hex"
	"encoding/json"
	"fmt"
	"math/big"
	"os"
	"sort"
	"strconv"
	"strings"
	"sync"
	"testing"
	"time"

	"github.com/bnb-chain/tss-lib/ecdsa/keygen"

	"github.com/keep-network/keep-core/internal/testutils"
	"github.com/keep-network/keep-core/pkg/chain"
	"github.com/keep-network/keep-core/pkg/crypto/ephemeral"
	"github.com/keep-network/keep-core/pkg/internal/tecdsatest"
	"github.com/keep-network/keep-core/pkg/net"
	"github.com/keep-network/keep-core/pkg/operator"
	"github.com/keep-network/keep-core/pkg/protocol/group"
	"github.com/keep-network/keep-core/pkg/protocol/state"
	"github.com/keep-network/keep-core/pkg/verifshim/vrep"
)

const c07Session = "c07-session-1"
const c07OtherSession = "c07-session-0"

// ---- environment fakes ----

// c07Signing maps operator public key bytes to an address (hex of the bytes); the
// membership validator needs nothing else.
type c07Signing struct{}

func (c07Signing) Address() chain.Address                           { return "" }
func (c07Signing) PublicKey() []byte                                { return nil }
func (c07Signing) Sign([]byte) ([]byte, error)                      { return nil, nil }
func (c07Signing) Verify([]byte, []byte) (bool, error)              { return false, nil }
func (c07Signing) VerifyWithPublicKey(_, _, _ []byte) (bool, error) { return false, nil }
func (c07Signing) PublicKeyToAddress(pk *operator.PublicKey) (chain.Address, error) {
	return "", fmt.Errorf("unused")
}
func (c07Signing) PublicKeyBytesToAddress(pk []byte) chain.Address {
	return chain.Address(hex.EncodeToString(pk))
}

// c07Msg is the network envelope handed to Receive.
type c07Msg struct {
	payload  interface{}
	key      []byte
	typ      string
	injected string // label of the injection ("" = genuine message of an operating member)
	sender   int    // seat that really produced it (0 for forged ones)
}

func (m *c07Msg) TransportSenderID() net.TransportIdentifier { return nil }
func (m *c07Msg) SenderPublicKey() []byte                    { return m.key }
func (m *c07Msg) Payload() interface{}                       { return m.payload }
func (m *c07Msg) Type() string                               { return m.typ }
func (m *c07Msg) Seqno() uint64                              { return 0 }

var c07Types = []string{
	(&ephemeralPublicKeyMessage{}).Type(),
	(&tssRoundOneMessage{}).Type(),
	(&tssRoundTwoMessage{}).Type(),
	(&tssRoundThreeMessage{}).Type(),
	(&tssFinalizationMessage{}).Type(),
}

func c07Phase(typ string) int {
	for i, t := range c07Types {
		if t == typ {
			return i + 1
		}
	}
	return 0
}

func c07Short(typ string) string {
	return strings.TrimSuffix(strings.TrimPrefix(typ, messageTypePrefix), "_message")
}

// ---- fixtures ----

var (
	c07FixOnce sync.Once
	c07FixJSON [][]byte
	c07FixErr  error
)

// c07PreParams returns a private copy of the fixture pre-parameters number i (0..4).
func c07PreParams(i int) *PreParams {
	c07FixOnce.Do(func() {
		shares, err := tecdsatest.LoadPrivateKeyShareTestFixtures(5)
		if err != nil {
			c07FixErr = err
			return
		}
		for _, s := range shares {
			b, err := json.Marshal(&s.LocalPreParams)
			if err != nil {
				c07FixErr = err
				return
			}
			c07FixJSON = append(c07FixJSON, b)
		}
	})
	if c07FixErr != nil {
		panic(c07FixErr)
	}
	var pp keygen.LocalPreParams
	if err := json.Unmarshal(c07FixJSON[i], &pp); err != nil {
		panic(err)
	}
	if !pp.ValidateWithProof() {
		panic("fixture pre-parameters incomplete")
	}
	return &PreParams{data: &pp}
}

// ---- configuration ----

type c07Cfg struct {
	N        int   `json:"n"`
	H        int   `json:"honest_threshold"`
	Excluded []int `json:"excluded"`
	// Operators[i] is the operator holding seat i+1 (nil: one operator per seat).
	Operators []int `json:"operators,omitempty"`
}

func (c c07Cfg) String() string {
	s := fmt.Sprintf("%d-of-%d excluded=%v", c.H, c.N, c.Excluded)
	if c.Operators != nil {
		s += fmt.Sprintf(" operators=%v", c.Operators)
	}
	return s
}

func (c c07Cfg) isExcluded(i int) bool {
	for _, x := range c.Excluded {
		if x == i {
			return true
		}
	}
	return false
}

func (c c07Cfg) operating() []int {
	var o []int
	for i := 1; i <= c.N; i++ {
		if !c.isExcluded(i) {
			o = append(o, i)
		}
	}
	return o
}

func (c c07Cfg) op(seat int) int {
	if c.Operators != nil {
		return c.Operators[seat-1]
	}
	return seat
}

func (c c07Cfg) key(seat int) []byte { return []byte{0xc7, byte(c.op(seat))} }

func (c c07Cfg) excludedIndexes() []group.MemberIndex {
	var e []group.MemberIndex
	for _, x := range c.Excluded {
		e = append(e, group.MemberIndex(x))
	}
	return e
}

func (c c07Cfg) validator() *group.MembershipValidator {
	ops := make([]chain.Address, c.N)
	for i := 1; i <= c.N; i++ {
		ops[i-1] = c07Signing{}.PublicKeyBytesToAddress(c.key(i))
	}
	return group.NewMembershipValidator(&testutils.MockLogger{}, ops, c07Signing{})
}

// c07SetString renders member indexes as a sorted set (the statement does not fix an
// order for the misbehaved list).
func c07SetString(xs []group.MemberIndex) string {
	seen := map[group.MemberIndex]bool{}
	var ys []int
	for _, x := range xs {
		if !seen[x] {
			seen[x] = true
			ys = append(ys, int(x))
		}
	}
	sort.Ints(ys)
	return fmt.Sprint(ys)
}

// c07ExclusionSets lists every exclusion set leaving at least h operating members.
func c07ExclusionSets(n, h int) [][]int {
	var out [][]int
	for mask := 0; mask < 1<<n; mask++ {
		var e []int
		for i := 0; i < n; i++ {
			if mask&(1<<i) != 0 {
				e = append(e, i+1)
			}
		}
		if n-len(e) >= h {
			out = append(out, e)
		}
	}
	sort.SliceStable(out, func(a, b int) bool { return len(out[a]) < len(out[b]) })
	return out
}

// ---- delivery policies ----

// c07Policy names how genuine messages reach the members:
//
//	inorder  every message reaches everybody (the sender included) at once, senders ascending
//	reverse  as inorder, senders descending
//	dup      every message is delivered twice, and all earlier messages are delivered
//	         again whenever new ones are sent (retransmissions)
//	swap     the victim receives the messages of phase k (k of the given parity) only
//	         after those of phase k+1: later-phase messages before earlier ones
//	laggard  the victim is not started, and later takes no step, while any other
//	         member can make progress; meanwhile its messages pile up (late joiner)
type c07Policy struct {
	Name   string `json:"name"`
	Victim int    `json:"victim,omitempty"`
	Parity int    `json:"parity,omitempty"`
}

func (p c07Policy) String() string {
	switch p.Name {
	case "swap":
		return fmt.Sprintf("swap(victim=%d,parity=%d)", p.Victim, p.Parity)
	case "laggard":
		return fmt.Sprintf("laggard(victim=%d)", p.Victim)
	}
	return p.Name
}

type c07Case struct {
	Cfg    c07Cfg    `json:"cfg"`
	Policy c07Policy `json:"policy"`
	// Inject: forged / foreign messages are handed to every member before and after
	// the Initiate of each of its states.
	Inject bool `json:"inject"`
	// Join: the excluded members run the protocol themselves (valid operator key, own
	// seat), all their messages reach everybody.
	Join bool `json:"join"`
}

func (c c07Case) String() string {
	s := c.Cfg.String() + " " + c.Policy.String()
	if c.Inject {
		s += " +inject"
	}
	if c.Join {
		s += " +join"
	}
	return s
}

// ---- one member ----

type c07Member struct {
	idx       int
	joiner    bool // excluded member taking part anyway
	st        state.AsyncState
	base      *state.BaseAsyncState
	core      *member
	ch        *c07Chan
	initiated bool
	done      bool
	err       error
	inbox     []*c07Msg
	delivered map[string]bool // "phase/sender" of genuine messages already handed over
	steps     int             // states entered
}

type c07Chan struct {
	run    *c07Run
	sender int
}

func (c *c07Chan) Name() string { return "c07" }
func (c *c07Chan) Send(_ context.Context, m net.TaggedMarshaler, _ ...net.RetransmissionStrategy) error {
	c.run.mu.Lock()
	c.run.outbox = append(c.run.outbox, c07Sent{c.sender, m})
	c.run.mu.Unlock()
	return nil
}
func (c *c07Chan) Recv(context.Context, func(net.Message))     {}
func (c *c07Chan) SetUnmarshaler(func() net.TaggedUnmarshaler) {}
func (c *c07Chan) SetFilter(net.BroadcastChannelFilter) error  { return nil }

type c07Sent struct {
	sender int
	msg    net.TaggedMarshaler
}

func c07StateName(st state.AsyncState) string {
	return strings.TrimSuffix(strings.TrimPrefix(fmt.Sprintf("%T", st), "*dkg."), "State")
}

// ---- the run ----

type c07Run struct {
	cs      c07Case
	members []*c07Member // participating members (operating first, then joiners)
	mu      sync.Mutex
	outbox  []c07Sent
	sent    []*c07Msg                  // every genuine message so far, in sending order
	seen    map[string]message         // latest genuine payload per type (template for forgeries)
	own     map[int]map[string]message // own genuine payload per member and type
	// observations
	accepted   []string // injected messages that reached a history
	injections int      // injected messages handed to Receive
	refused    int      // forged messages refused by the wire decoder
	receives   int
	early      int // genuine messages handed to a state of an earlier phase
	stale      int // genuine messages handed to a state of a later phase (duplicates)
	notes      []string
}

func c07HistSize(b *state.BaseAsyncState) int {
	n := 0
	for _, t := range c07Types {
		n += len(b.GetAllReceivedMessages(t))
	}
	return n
}

func c07Concurrency() int {
	if s := os.Getenv("VERIF_C07_CONC"); s != "" {
		if n, err := strconv.Atoi(s); err == nil && n > 0 {
			return n
		}
	}
	return 2
}

// c07NewMember builds a member the way Executor.Execute does (newMember, excluded
// members other than oneself marked as disqualified, initial state).
func c07NewMember(run *c07Run, cfg c07Cfg, idx int, validator *group.MembershipValidator) *c07Member {
	pp := c07PreParams(idx - 1)
	m := newMember(
		&testutils.MockLogger{},
		big.NewInt(200),
		group.MemberIndex(idx),
		cfg.N,
		cfg.N-cfg.H,
		validator,
		c07Session,
		func() (*PreParams, error) { return pp, nil },
		c07Concurrency(),
	)
	for _, e := range cfg.excludedIndexes() {
		if e != m.id {
			m.group.MarkMemberAsDisqualified(e)
		}
	}
	ch := &c07Chan{run: run, sender: idx}
	base := state.NewBaseAsyncState()
	return &c07Member{
		idx: idx, core: m, ch: ch, base: base, delivered: map[string]bool{},
		st: &ephemeralKeyPairGenerationState{
			BaseAsyncState: base,
			channel:        ch,
			member:         m.initializeEphemeralKeysGeneration(),
		},
	}
}

// c07Clone copies a protocol message with another sender index / session.
func c07Clone(tmpl message, sender int, session string) message {
	s := group.MemberIndex(sender)
	switch t := tmpl.(type) {
	case *ephemeralPublicKeyMessage:
		keys := map[group.MemberIndex]*ephemeral.PublicKey{}
		for k, v := range t.ephemeralPublicKeys {
			keys[k] = v
		}
		return &ephemeralPublicKeyMessage{senderID: s, ephemeralPublicKeys: keys, sessionID: session}
	case *tssRoundOneMessage:
		return &tssRoundOneMessage{senderID: s, broadcastPayload: append([]byte{}, t.broadcastPayload...), sessionID: session}
	case *tssRoundTwoMessage:
		pp := map[group.MemberIndex][]byte{}
		for k, v := range t.peersPayload {
			pp[k] = append([]byte{}, v...)
		}
		return &tssRoundTwoMessage{senderID: s, broadcastPayload: append([]byte{}, t.broadcastPayload...), peersPayload: pp, sessionID: session}
	case *tssRoundThreeMessage:
		return &tssRoundThreeMessage{senderID: s, broadcastPayload: append([]byte{}, t.broadcastPayload...), sessionID: session}
	case *tssFinalizationMessage:
		return &tssFinalizationMessage{senderID: s, sessionID: session}
	}
	panic(fmt.Sprintf("unknown message %T", tmpl))
}

// c07Synth makes up a message of the given type when no genuine one exists yet.
func c07Synth(typ string, n int) message {
	switch c07Phase(typ) {
	case 1:
		keys := map[group.MemberIndex]*ephemeral.PublicKey{}
		for i := 1; i <= n; i++ {
			kp, err := ephemeral.GenerateKeyPair()
			if err != nil {
				panic(err)
			}
			keys[group.MemberIndex(i)] = kp.PublicKey
		}
		return &ephemeralPublicKeyMessage{ephemeralPublicKeys: keys}
	case 2:
		return &tssRoundOneMessage{broadcastPayload: []byte{1, 2, 3}}
	case 3:
		pp := map[group.MemberIndex][]byte{}
		for i := 1; i <= n; i++ {
			pp[group.MemberIndex(i)] = []byte{4, 5, 6}
		}
		return &tssRoundTwoMessage{broadcastPayload: []byte{1, 2, 3}, peersPayload: pp}
	case 4:
		return &tssRoundThreeMessage{broadcastPayload: []byte{1, 2, 3}}
	default:
		return &tssFinalizationMessage{}
	}
}

// c07RoundTrip passes a forged message through the wire format, as the network would.
func c07RoundTrip(m message) (out message, ok bool) {
	defer func() {
		if r := recover(); r != nil {
			out, ok = nil, false
		}
	}()
	mm, isM := m.(net.TaggedMarshaler)
	if !isM {
		return nil, false
	}
	b, err := mm.Marshal()
	if err != nil {
		return nil, false
	}
	var u net.TaggedUnmarshaler
	switch m.(type) {
	case *ephemeralPublicKeyMessage:
		u = &ephemeralPublicKeyMessage{}
	case *tssRoundOneMessage:
		u = &tssRoundOneMessage{}
	case *tssRoundTwoMessage:
		u = &tssRoundTwoMessage{}
	case *tssRoundThreeMessage:
		u = &tssRoundThreeMessage{}
	case *tssFinalizationMessage:
		u = &tssFinalizationMessage{}
	default:
		return nil, false
	}
	if err := u.Unmarshal(b); err != nil {
		return nil, false
	}
	return u.(message), true
}

type c07Forgery struct {
	label   string
	sender  int
	key     []byte
	session string
	self    bool // template: the receiver's own message
}

// c07Forgeries is the injection menu for receiver r: everything a party that is not an
// operating member of this session (or not the claimed one) can put on the channel.
func c07Forgeries(cfg c07Cfg, r int) []c07Forgery {
	var fs []c07Forgery
	operating := cfg.operating()
	unknown := []byte{0xc7, 0xee}
	for _, e := range cfg.Excluded {
		if e == r {
			continue
		}
		// an excluded member with its valid operator key and its own seat
		fs = append(fs, c07Forgery{label: fmt.Sprintf("excluded(%d)", e), sender: e, key: cfg.key(e), session: c07Session})
		for _, b := range operating {
			if b == r || cfg.op(b) == cfg.op(e) {
				continue
			}
			// an excluded member's key claiming an operating seat
			fs = append(fs, c07Forgery{label: fmt.Sprintf("excluded-key(%d)-claims(%d)", e, b), sender: b, key: cfg.key(e), session: c07Session})
		}
	}
	for _, a := range operating {
		if a == r {
			continue
		}
		for _, b := range operating {
			if b == a || b == r || cfg.op(a) == cfg.op(b) {
				continue
			}
			// an operating member's key claiming another operating seat
			fs = append(fs, c07Forgery{label: fmt.Sprintf("key(%d)-claims(%d)", a, b), sender: b, key: cfg.key(a), session: c07Session})
		}
		for _, e := range cfg.Excluded {
			if e == r {
				continue
			}
			// an operating member's key claiming an excluded seat (accepted by the
			// membership validator only if one operator holds both seats)
			fs = append(fs, c07Forgery{label: fmt.Sprintf("key(%d)-claims-excluded(%d)", a, e), sender: e, key: cfg.key(a), session: c07Session})
		}
		// an otherwise valid message of another session (e.g. the previous attempt)
		fs = append(fs, c07Forgery{label: fmt.Sprintf("other-session(%d)", a), sender: a, key: cfg.key(a), session: c07OtherSession})
		// a key outside the group claiming an operating seat
		fs = append(fs, c07Forgery{label: fmt.Sprintf("unknown-key-claims(%d)", a), sender: a, key: unknown, session: c07Session})
	}
	if len(operating) > 0 {
		a := operating[0]
		if a == r && len(operating) > 1 {
			a = operating[1]
		}
		fs = append(fs, c07Forgery{label: "seat-0", sender: 0, key: cfg.key(a), session: c07Session})
		fs = append(fs, c07Forgery{label: "seat-n+1", sender: cfg.N + 1, key: cfg.key(a), session: c07Session})
	}
	// the member's own message coming back (replay)
	fs = append(fs, c07Forgery{label: "self-replay", sender: r, key: cfg.key(r), session: c07Session, self: true})
	fs = append(fs, c07Forgery{label: "self-replay-other-key", sender: r, key: unknown, session: c07Session, self: true})
	return fs
}

// inject hands the whole menu, for every message type, to member m and checks after
// every single Receive that the member's history did not change.
func (run *c07Run) inject(m *c07Member, when string) {
	cfg := run.cs.Cfg
	for _, typ := range c07Types {
		for _, f := range c07Forgeries(cfg, m.idx) {
			var tmpl message
			if f.self {
				tmpl = run.own[m.idx][typ]
			}
			if tmpl == nil {
				tmpl = run.seen[typ]
			}
			if tmpl == nil {
				tmpl = c07Synth(typ, cfg.N)
			}
			forged, ok := c07RoundTrip(c07Clone(tmpl, f.sender, f.session))
			if !ok {
				run.refused++
				continue
			}
			label := fmt.Sprintf("%s %s", f.label, c07Short(typ))
			msg := &c07Msg{payload: forged, key: f.key, typ: typ, injected: label}
			before := c07HistSize(m.base)
			run.injections++
			if p, stack := vrep.Guard(func() {
				if err := m.st.Receive(msg); err != nil {
					run.note("member %d: Receive(%s) returned %v", m.idx, label, err)
				}
			}); p != nil {
				run.accepted = append(run.accepted, fmt.Sprintf("PANIC %s -> member %d in %s (%s): %v\n%s", label, m.idx, c07StateName(m.st), when, p, stack))
				continue
			}
			if c07HistSize(m.base) != before {
				run.accepted = append(run.accepted, fmt.Sprintf("%s -> member %d in %s (%s)", label, m.idx, c07StateName(m.st), when))
			}
		}
	}
}

func (run *c07Run) note(format string, a ...any) {
	run.mu.Lock()
	run.notes = append(run.notes, fmt.Sprintf(format, a...))
	run.mu.Unlock()
}

// c07StatePhase: the message phase a state waits for (the silent symmetric key state
// belongs to phase 1: it follows the ephemeral key exchange).
func c07StatePhase(st state.AsyncState) int {
	switch st.(type) {
	case *ephemeralKeyPairGenerationState, *symmetricKeyGenerationState:
		return 1
	case *tssRoundOneState:
		return 2
	case *tssRoundTwoState:
		return 3
	case *tssRoundThreeState:
		return 4
	case *finalizationState:
		return 5
	}
	return 0
}

func (run *c07Run) receive(m *c07Member, msg *c07Msg) {
	run.receives++
	if msg.injected == "" && msg.sender != m.idx {
		switch k, cur := c07Phase(msg.typ), c07StatePhase(m.st); {
		case k > cur:
			run.early++
		case k < cur:
			run.stale++
		}
	}
	if p, stack := vrep.Guard(func() {
		if err := m.st.Receive(msg); err != nil && m.err == nil {
			m.err = fmt.Errorf("%s.Receive: %v", c07StateName(m.st), err)
		}
	}); p != nil && m.err == nil {
		m.err = fmt.Errorf("panic in %s.Receive: %v\n%s", c07StateName(m.st), p, stack)
	}
	if msg.injected == "" && msg.sender != m.idx {
		if pm, ok := msg.payload.(message); ok {
			m.delivered[fmt.Sprintf("%d/%d", c07Phase(pm.Type()), msg.sender)] = true
		}
	}
}

// deliver hands the deliverable part of m's inbox to its current state.
func (run *c07Run) deliver(m *c07Member) bool {
	if len(m.inbox) == 0 {
		return false
	}
	pol := run.cs.Policy
	others := 0
	for _, o := range run.cs.Cfg.operating() {
		if o != m.idx {
			others++
		}
	}
	hold := func(msg *c07Msg) bool {
		if pol.Name != "swap" || pol.Victim != m.idx || msg.sender == m.idx || msg.sender == 0 {
			return false
		}
		if run.cs.Cfg.isExcluded(msg.sender) {
			return false
		}
		k := c07Phase(msg.typ)
		if k >= len(c07Types) || k%2 != pol.Parity {
			return false
		}
		// held until the next phase's messages of all other operating members arrived
		got := 0
		for _, o := range run.cs.Cfg.operating() {
			if o != m.idx && m.delivered[fmt.Sprintf("%d/%d", k+1, o)] {
				got++
			}
		}
		return got < others
	}
	any := false
	for pass := 0; pass < 2; pass++ {
		batch := m.inbox
		m.inbox = nil
		if pol.Name == "reverse" {
			sort.SliceStable(batch, func(a, b int) bool { return batch[a].sender > batch[b].sender })
		}
		var kept []*c07Msg
		for _, msg := range batch {
			if hold(msg) {
				kept = append(kept, msg)
				continue
			}
			run.receive(m, msg)
			any = true
		}
		m.inbox = append(kept, m.inbox...)
		if len(kept) == 0 {
			break
		}
	}
	return any
}

// route distributes what the members just sent.
func (run *c07Run) route() bool {
	run.mu.Lock()
	out := run.outbox
	run.outbox = nil
	run.mu.Unlock()
	if len(out) == 0 {
		return false
	}
	sort.SliceStable(out, func(a, b int) bool { return out[a].sender < out[b].sender })
	cfg := run.cs.Cfg
	var fresh []*c07Msg
	for _, o := range out {
		pm, ok := o.msg.(message)
		if !ok {
			panic(fmt.Sprintf("member %d sent %T", o.sender, o.msg))
		}
		msg := &c07Msg{payload: o.msg, key: cfg.key(o.sender), typ: o.msg.Type(), sender: o.sender}
		if cfg.isExcluded(o.sender) {
			msg.injected = fmt.Sprintf("joiner(%d) %s", o.sender, c07Short(msg.typ))
		} else {
			run.seen[msg.typ] = pm
			if run.own[o.sender] == nil {
				run.own[o.sender] = map[string]message{}
			}
			run.own[o.sender][msg.typ] = pm
		}
		fresh = append(fresh, msg)
	}
	var batch []*c07Msg
	if run.cs.Policy.Name == "dup" {
		batch = append(batch, run.sent...) // retransmission of everything sent earlier
		for _, f := range fresh {
			batch = append(batch, f, f)
		}
	} else {
		batch = fresh
	}
	run.sent = append(run.sent, fresh...)
	for _, m := range run.members {
		m.inbox = append(m.inbox, batch...)
	}
	return true
}

func c07Execute(cs c07Case) *c07Result {
	cfg := cs.Cfg
	run := &c07Run{cs: cs, seen: map[string]message{}, own: map[int]map[string]message{}}
	validator := cfg.validator()
	for _, i := range cfg.operating() {
		run.members = append(run.members, c07NewMember(run, cfg, i, validator))
	}
	if cs.Join {
		for _, e := range cfg.Excluded {
			m := c07NewMember(run, cfg, e, validator)
			m.joiner = true
			run.members = append(run.members, m)
		}
	}
	// the deadline only guards the harness against a tss-lib party that never emits
	// its message; it is far beyond any run time observed
	ctx, cancel := context.WithTimeout(context.Background(), 15*time.Minute)
	defer cancel()

	stepMembers := func(active []*c07Member) bool {
		progress := false
		// injections before Initiate (the machine hands messages to a state while its
		// Initiate is still running)
		if cs.Inject {
			for _, m := range active {
				if !m.done && m.err == nil && !m.initiated && !m.joiner {
					run.inject(m, "before Initiate")
				}
			}
		}
		var wg sync.WaitGroup
		for _, m := range active {
			if m.done || m.err != nil || m.initiated {
				continue
			}
			progress = true
			m.initiated = true
			m.steps++
			wg.Add(1)
			go func(m *c07Member) {
				defer wg.Done()
				if p, stack := vrep.Guard(func() {
					if err := m.st.Initiate(ctx); err != nil {
						m.err = fmt.Errorf("%s.Initiate: %v", c07StateName(m.st), err)
					}
				}); p != nil {
					m.err = fmt.Errorf("panic in %s.Initiate: %v\n%s", c07StateName(m.st), p, stack)
				}
			}(m)
		}
		wg.Wait()
		if run.route() {
			progress = true
		}
		if cs.Inject {
			for _, m := range active {
				if !m.done && m.err == nil && !m.joiner {
					run.inject(m, "after Initiate")
				}
			}
		}
		for _, m := range active {
			if m.done || m.err != nil {
				// a finished machine no longer reads the channel
				m.inbox = nil
				continue
			}
			if run.deliver(m) {
				progress = true
			}
		}
		for _, m := range active {
			if m.done || m.err != nil || !m.initiated {
				continue
			}
			can := false
			if p, stack := vrep.Guard(func() { can = m.st.CanTransition() }); p != nil {
				m.err = fmt.Errorf("panic in %s.CanTransition: %v\n%s", c07StateName(m.st), p, stack)
				continue
			}
			if !can {
				continue
			}
			var next state.AsyncState
			if p, stack := vrep.Guard(func() {
				var err error
				next, err = m.st.Next()
				if err != nil {
					m.err = fmt.Errorf("%s.Next: %v", c07StateName(m.st), err)
				}
			}); p != nil {
				m.err = fmt.Errorf("panic in %s.Next: %v\n%s", c07StateName(m.st), p, stack)
			}
			if m.err != nil {
				continue
			}
			progress = true
			if next == nil {
				m.done = true
			} else {
				m.st = next
				m.initiated = false
			}
		}
		return progress
	}

	for iter := 0; iter < 200; iter++ {
		var fast, slow []*c07Member
		for _, m := range run.members {
			if cs.Policy.Name == "laggard" && cs.Policy.Victim == m.idx {
				slow = append(slow, m)
			} else {
				fast = append(fast, m)
			}
		}
		if stepMembers(fast) {
			continue
		}
		// nobody else can move: the laggard gets everything that piled up, takes its
		// steps, and what it sends is routed
		if len(slow) > 0 && stepMembers(slow) {
			continue
		}
		break
	}
	return run.result()
}

// ---- outcome ----

type c07Result struct {
	Case          string            `json:"case"`
	Finished      []int             `json:"finished"`
	NotDone       map[int]string    `json:"not_done,omitempty"` // member -> state it stalled in / error
	Keys          map[int]string    `json:"keys"`
	Misbehaved    map[int]string    `json:"misbehaved"`
	MisbehavedSet map[int]string    `json:"-"` // the same as a sorted set
	History       map[int]string    `json:"history"`
	Accepted      []string          `json:"accepted,omitempty"`
	BadHistory    []string          `json:"bad_history,omitempty"`
	Joiners       map[int]string    `json:"joiners,omitempty"`
	Shares        map[int]*c07Share `json:"-"`
	Injections    int               `json:"injections"`
	Refused       int               `json:"refused"`
	Receives      int               `json:"receives"`
	Steps         int               `json:"steps"`
	Stored        int               `json:"stored"` // genuine messages that entered a history
	Early         int               `json:"early"`
	Stale         int               `json:"stale"`
	Notes         []string          `json:"notes,omitempty"`
}

type c07Share struct {
	result *Result
}

func (run *c07Run) result() *c07Result {
	cfg := run.cs.Cfg
	res := &c07Result{Case: run.cs.String(), NotDone: map[int]string{}, Keys: map[int]string{}, Misbehaved: map[int]string{}, MisbehavedSet: map[int]string{},
		History: map[int]string{}, Joiners: map[int]string{}, Shares: map[int]*c07Share{},
		Accepted: run.accepted, Injections: run.injections, Refused: run.refused, Receives: run.receives, Early: run.early, Stale: run.stale, Notes: run.notes}
	for _, m := range run.members {
		res.Steps += m.steps
		describe := func() string {
			if m.err != nil {
				e := m.err.Error()
				if i := strings.Index(e, "\n"); i > 0 && !strings.HasPrefix(e, "panic") {
					e = e[:i]
				}
				return "error: " + e
			}
			return "stalled in " + c07StateName(m.st)
		}
		var dr *Result
		if m.done && m.err == nil {
			fs, ok := m.st.(*finalizationState)
			if !ok {
				m.err = fmt.Errorf("machine ended in %T", m.st)
			} else if p, _ := vrep.Guard(func() { dr = fs.result() }); p != nil {
				m.err = fmt.Errorf("panic in result(): %v", p)
			}
		}
		if m.joiner {
			if dr != nil {
				kb, err := dr.GroupPublicKeyBytes()
				if err != nil {
					res.Joiners[m.idx] = "finished without key: " + err.Error()
				} else {
					res.Joiners[m.idx] = "finished key=" + hex.EncodeToString(kb)
				}
			} else {
				res.Joiners[m.idx] = describe()
			}
			continue
		}
		// history: every entry must be a genuine message of another operating member
		var hist []string
		for _, t := range c07Types {
			var senders []string
			for _, nm := range m.base.GetAllReceivedMessages(t) {
				cm, ok := nm.(*c07Msg)
				if !ok {
					res.BadHistory = append(res.BadHistory, fmt.Sprintf("member %d holds a foreign envelope %T", m.idx, nm))
					continue
				}
				pm, _ := cm.payload.(message)
				switch {
				case cm.injected != "":
					res.BadHistory = append(res.BadHistory, fmt.Sprintf("member %d holds injected message [%s]", m.idx, cm.injected))
				case pm == nil:
					res.BadHistory = append(res.BadHistory, fmt.Sprintf("member %d holds a non-protocol payload", m.idx))
				case int(pm.SenderID()) == m.idx:
					res.BadHistory = append(res.BadHistory, fmt.Sprintf("member %d holds its own %s", m.idx, c07Short(t)))
				case cfg.isExcluded(int(pm.SenderID())) || int(pm.SenderID()) < 1 || int(pm.SenderID()) > cfg.N:
					res.BadHistory = append(res.BadHistory, fmt.Sprintf("member %d holds a %s of non-operating seat %d", m.idx, c07Short(t), pm.SenderID()))
				case pm.SessionID() != c07Session:
					res.BadHistory = append(res.BadHistory, fmt.Sprintf("member %d holds a %s of session %q", m.idx, c07Short(t), pm.SessionID()))
				}
				if pm != nil {
					senders = append(senders, fmt.Sprint(pm.SenderID()))
					res.Stored++
				}
			}
			hist = append(hist, c07Short(t)+":"+strings.Join(senders, ","))
		}
		res.History[m.idx] = strings.Join(hist, " ")
		if dr == nil {
			res.NotDone[m.idx] = describe()
			continue
		}
		kb, err := dr.GroupPublicKeyBytes()
		if err != nil {
			res.NotDone[m.idx] = "finished without key: " + err.Error()
			continue
		}
		res.Finished = append(res.Finished, m.idx)
		res.Keys[m.idx] = hex.EncodeToString(kb)
		res.Misbehaved[m.idx] = fmt.Sprint(dr.MisbehavedMembersIndexes())
		res.MisbehavedSet[m.idx] = c07SetString(dr.MisbehavedMembersIndexes())
		res.Shares[m.idx] = &c07Share{dr}
	}
	return res
}

// structure is what must not depend on injected messages: who finished, whether the
// finishers agree, their misbehaved lists, where the others stopped, and the exact
// message history of every member.
func (res *c07Result) structure() string {
	var b strings.Builder
	fmt.Fprintf(&b, "finished=%v agree=%v", res.Finished, res.agree())
	for _, i := range res.Finished {
		fmt.Fprintf(&b, " mis%d=%s", i, res.Misbehaved[i])
	}
	var nd []int
	for i := range res.NotDone {
		nd = append(nd, i)
	}
	sort.Ints(nd)
	for _, i := range nd {
		s := res.NotDone[i]
		if len(s) > 60 {
			s = s[:60]
		}
		fmt.Fprintf(&b, " notdone%d=%s", i, s)
	}
	var hs []int
	for i := range res.History {
		hs = append(hs, i)
	}
	sort.Ints(hs)
	for _, i := range hs {
		fmt.Fprintf(&b, " hist%d=[%s]", i, res.History[i])
	}
	return b.String()
}

func (res *c07Result) agree() bool {
	for _, i := range res.Finished {
		if res.Keys[i] != res.Keys[res.Finished[0]] {
			return false
		}
	}
	return true
}

func (res *c07Result) class() string {
	s := fmt.Sprintf("finishers=%d", len(res.Finished))
	if len(res.NotDone) > 0 {
		var nd []int
		for i := range res.NotDone {
			nd = append(nd, i)
		}
		sort.Ints(nd)
		x := res.NotDone[nd[0]]
		if len(x) > 50 {
			x = x[:50]
		}
		s += fmt.Sprintf(" notdone=%d(%s)", len(nd), x)
	}
	if len(res.Finished) > 0 {
		s += " misbehaved=" + res.Misbehaved[res.Finished[0]]
	}
	if len(res.Joiners) > 0 {
		var js []int
		for i := range res.Joiners {
			js = append(js, i)
		}
		sort.Ints(js)
		x := res.Joiners[js[0]]
		if len(x) > 50 {
			x = x[:50]
		}
		s += " joiner:" + x
	}
	return s
}

// c07Oracle evaluates the statement on one run; base is the same case without
// injections / joiners (nil when this run is itself the base).
func c07Oracle(r *vrep.R, cs c07Case, res, base *c07Result) {
	fp := cs.String()
	report := func(kind, what string) {
		r.ViolationMin(kind, len(cs.Cfg.Excluded)*100+cs.Cfg.N*10+len(cs.Policy.Name), fp, what, cs)
	}
	want := c07SetString(cs.Cfg.excludedIndexes())
	for _, i := range res.Finished {
		if res.Keys[i] != res.Keys[res.Finished[0]] {
			report("key-disagreement", fmt.Sprintf("operating members %d and %d finished with different wallet public keys %s.. / %s..",
				res.Finished[0], i, res.Keys[res.Finished[0]][:18], res.Keys[i][:18]))
		}
		if res.Misbehaved[i] != res.Misbehaved[res.Finished[0]] {
			report("misbehaved-disagreement", fmt.Sprintf("operating members %d and %d finished with different misbehaved lists %s / %s",
				res.Finished[0], i, res.Misbehaved[res.Finished[0]], res.Misbehaved[i]))
		}
		if res.MisbehavedSet[i] != want {
			report("misbehaved-not-exclusion-set", fmt.Sprintf("member %d finished with misbehaved list %s, excluded were %s", i, res.Misbehaved[i], want))
		}
	}
	for _, a := range res.Accepted {
		report("injected-accepted", "an injected message reached a member's history: "+a)
	}
	for _, b := range res.BadHistory {
		report("history-foreign-entry", b)
	}
	for j, what := range res.Joiners {
		if strings.HasPrefix(what, "finished") {
			k := ""
			if len(res.Finished) > 0 {
				k = res.Keys[res.Finished[0]]
			}
			if k != "" && strings.HasSuffix(what, k) {
				report("excluded-joined", fmt.Sprintf("excluded member %d completed the key generation with the wallet key of the operating members", j))
			}
		}
	}
	if base != nil && res.structure() != base.structure() {
		report("injection-changed-outcome", fmt.Sprintf("outcome with injected messages differs from the outcome without:\n with:    %s\n without: %s", res.structure(), base.structure()))
	}
}

// ---- work list ----

// c07Item is one unit of work: a case run with injections; with Diff also the same case
// without them (differential oracle); with Join also the variant in which the excluded
// members take part with their valid keys.
type c07Item struct {
	Cfg    c07Cfg
	Policy c07Policy
	Diff   bool
	Join   bool
}

func (it c07Item) weight() int {
	k := len(it.Cfg.operating())
	w := k * k
	if it.Diff {
		w *= 2
	}
	if it.Join {
		w += (k + len(it.Cfg.Excluded)) * (k + len(it.Cfg.Excluded))
	}
	return w
}

// c07ItemsFor: all policies for one configuration. The victims of the per-receiver
// policies are the lowest and the highest operating seat. Every item runs with
// injections; the in-order item and one more (rotating with the configuration number)
// are differential pairs, i.e. also run without.
func c07ItemsFor(cfg c07Cfg, ci int) []c07Item {
	op := cfg.operating()
	lo, hi := op[0], op[len(op)-1]
	join := len(cfg.Excluded) > 0
	items := []c07Item{
		{Cfg: cfg, Policy: c07Policy{Name: "inorder"}, Diff: true, Join: join},
		{Cfg: cfg, Policy: c07Policy{Name: "dup"}},
		{Cfg: cfg, Policy: c07Policy{Name: "swap", Victim: lo, Parity: 1}},
		{Cfg: cfg, Policy: c07Policy{Name: "laggard", Victim: hi}},
		{Cfg: cfg, Policy: c07Policy{Name: "reverse"}},
		{Cfg: cfg, Policy: c07Policy{Name: "swap", Victim: lo, Parity: 0}},
		{Cfg: cfg, Policy: c07Policy{Name: "swap", Victim: hi, Parity: 1}},
		{Cfg: cfg, Policy: c07Policy{Name: "swap", Victim: hi, Parity: 0}},
		{Cfg: cfg, Policy: c07Policy{Name: "laggard", Victim: lo}},
	}
	items[1+ci%3].Diff = true
	return items
}

func c07Items(thorough bool) []c07Item {
	var items []c07Item
	if !thorough {
		// quick: 2-of-3 without exclusion, 3-of-5 with one exclusion, 2-of-3 with one
		c1 := c07Cfg{N: 3, H: 2}
		c2 := c07Cfg{N: 5, H: 3, Excluded: []int{2}}
		c3 := c07Cfg{N: 3, H: 2, Excluded: []int{1}}
		items = []c07Item{
			{Cfg: c2, Policy: c07Policy{Name: "inorder"}, Diff: true, Join: true},
			{Cfg: c1, Policy: c07Policy{Name: "inorder"}, Diff: true},
			{Cfg: c1, Policy: c07Policy{Name: "swap", Victim: 3, Parity: 1}},
			{Cfg: c1, Policy: c07Policy{Name: "laggard", Victim: 1}},
			{Cfg: c3, Policy: c07Policy{Name: "dup"}, Diff: true, Join: true},
			{Cfg: c3, Policy: c07Policy{Name: "swap", Victim: 2, Parity: 0}},
		}
		return items
	}
	ci := 0
	for _, nh := range [][2]int{{5, 3}, {3, 2}} {
		for _, e := range c07ExclusionSets(nh[0], nh[1]) {
			items = append(items, c07ItemsFor(c07Cfg{N: nh[0], H: nh[1], Excluded: e}, ci)...)
			ci++
		}
	}
	// one operator holding two seats, one of them excluded: the forged "operating key
	// claims the excluded seat" passes the membership validator
	for _, e := range [][]int{{3}, {2}} {
		cfg := c07Cfg{N: 3, H: 2, Excluded: e, Operators: []int{1, 2, 2}}
		items = append(items,
			c07Item{Cfg: cfg, Policy: c07Policy{Name: "inorder"}, Diff: true, Join: true},
			c07Item{Cfg: cfg, Policy: c07Policy{Name: "dup"}})
	}
	// The in-order items (they cover every exclusion set, with the differential pair and
	// the joining excluded members) come first, so that a deadline cuts policies, not
	// exclusion sets; within a class the heaviest first, so that the round-robin over
	// the shards is balanced.
	class := func(it c07Item) int {
		if it.Policy.Name == "inorder" {
			return 0
		}
		return 1
	}
	sort.SliceStable(items, func(a, b int) bool {
		if class(items[a]) != class(items[b]) {
			return class(items[a]) < class(items[b])
		}
		return items[a].weight() > items[b].weight()
	})
	return items
}

func c07RunCase(r *vrep.R, cs c07Case, base *c07Result) *c07Result {
	res := c07Execute(cs)
	r.Eval(1)
	r.Distinct(cs.String())
	r.Outcome(res.class())
	r.Add("receives", int64(res.Receives))
	r.Add("messages_admitted_to_history", int64(res.Stored))
	r.Add("messages_delivered_before_their_phase", int64(res.Early))
	r.Add("messages_delivered_after_their_phase", int64(res.Stale))
	r.Add("injected_messages", int64(res.Injections))
	r.Add("forgeries_refused_by_decoder", int64(res.Refused))
	r.Add("states_entered", int64(res.Steps))
	if len(res.Finished) == len(cs.Cfg.operating()) {
		r.Add("runs_all_operating_finished", 1)
	} else {
		r.Add("runs_with_unfinished_operating_member", 1)
	}
	r.Sample(map[string]any{"case": cs.String(), "class": res.class(), "injections": res.Injections, "history_of_first_member": res.History[cs.Cfg.operating()[0]]})
	c07Oracle(r, cs, res, base)
	return res
}

func c07RunItem(r *vrep.R, it c07Item) {
	var base *c07Result
	if it.Diff {
		base = c07RunCase(r, c07Case{Cfg: it.Cfg, Policy: it.Policy}, nil)
		r.Add("differential_pairs", 1)
	}
	c07RunCase(r, c07Case{Cfg: it.Cfg, Policy: it.Policy, Inject: true}, base)
	if it.Join {
		c07RunCase(r, c07Case{Cfg: it.Cfg, Policy: it.Policy, Inject: true, Join: true}, base)
	}
}

func TestVerifC07Timing(t *testing.T) {
	if os.Getenv("VERIF_C07_TIMING") == "" {
		t.Skip("manual")
	}
	for _, cfg := range []c07Cfg{{N: 3, H: 2}, {N: 5, H: 3}} {
		t0 := time.Now()
		res := c07Execute(c07Case{Cfg: cfg, Policy: c07Policy{Name: "inorder"}})
		t.Logf("%s conc=%d: %s in %.1fs", cfg, c07Concurrency(), res.class(), time.Since(t0).Seconds())
	}
}

func TestVerifC07(t *testing.T) {
	r := vrep.Start(t, "C07", "states")
	defer r.Finish()
	if rd := r.ReplayData(); rd != nil {
		var cs c07Case
		if json.Unmarshal(rd, &cs) == nil && cs.Cfg.N > 0 {
			var base *c07Result
			if cs.Inject || cs.Join {
				b := cs
				b.Inject, b.Join = false, false
				base = c07RunCase(r, b, nil)
			}
			res := c07RunCase(r, cs, base)
			t.Logf("replay %s: %s", cs, res.structure())
		}
		return
	}
	items := c07Items(r.Thorough())
	r.Set("work_items", len(items))
	configs := map[string]bool{}
	for _, it := range items {
		configs[it.Cfg.String()] = true
	}
	r.Set("configurations", len(configs))
	done := 0
	for i, it := range items {
		if !r.Mine(i) {
			continue
		}
		if r.Expired() {
			break
		}
		c07RunItem(r, it)
		done++
	}
	r.Add("work_items_completed", int64(done))
}
