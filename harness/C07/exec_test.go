//go:build verif

package dkg

// C07 harness, unit "exec": the real Executor.Execute (member construction, exclusion
// as disqualification, AsyncMachine, final-state check) runs in one goroutine per
// participating member over a live harness channel. The excluded members run Execute
// themselves (valid operator key, own seat, same session), and for every genuine message
// the channel also carries forged copies (relabelled as an excluded seat, another
// session, another operating seat). The unit "states" drives the state objects
// directly and replicates the first lines of Execute; this unit checks the real ones.

import (
	"context"
	"encoding/hex"
	"encoding/json"
	"fmt"
	"math/big"
	"sort"
	"strings"
	"sync"
	"testing"
	"time"

	"github.com/keep-network/keep-core/internal/testutils"
	"github.com/keep-network/keep-core/pkg/generator"
	"github.com/keep-network/keep-core/pkg/net"
	"github.com/keep-network/keep-core/pkg/protocol/group"
	"github.com/keep-network/keep-core/pkg/verifshim/vrep"
)

// c07Persist serves one fixture pre-parameter set to the real pre-parameter pool.
type c07Persist struct{ items []*PersistedPreParams }

func (p *c07Persist) Save(pp *PreParams) (*PersistedPreParams, error) {
	return &PersistedPreParams{Data: *pp, ID: "generated"}, nil
}
func (p *c07Persist) Delete(*PersistedPreParams) error        { return nil }
func (p *c07Persist) ReadAll() ([]*PersistedPreParams, error) { return p.items, nil }

// c07Executor builds a real Executor whose pool holds exactly the fixture
// pre-parameters of the given seat; nothing is ever generated.
func c07Executor(seat int) *Executor {
	logger := &testutils.MockLogger{}
	pp := c07PreParams(seat - 1)
	pool := generator.NewParameterPool[PreParams](
		logger,
		&generator.Scheduler{},
		&c07Persist{items: []*PersistedPreParams{{Data: *pp, ID: fmt.Sprintf("fixture-%d", seat)}}},
		1,
		func(ctx context.Context) *PreParams {
			<-ctx.Done() // never generate safe primes
			return nil
		},
		time.Hour,
	)
	return &Executor{
		tssPreParamsPool:         &tssPreParamsPool{pool, logger},
		keyGenerationConcurrency: c07Concurrency(),
	}
}

type c07LiveReg struct {
	ctx context.Context
	h   func(net.Message)
}

// c07Live is a broadcast medium: every message reaches every registered handler (the
// sender's own included); a handler registered late first gets everything sent so far
// (what retransmissions achieve on the real channel).
type c07Live struct {
	cfg    c07Cfg
	inject bool
	mu     sync.Mutex
	regs   []*c07LiveReg
	log    []*c07Msg
	forged int
}

func (l *c07Live) broadcast(msgs []*c07Msg) {
	l.mu.Lock()
	l.log = append(l.log, msgs...)
	regs := append([]*c07LiveReg{}, l.regs...)
	l.mu.Unlock()
	for _, m := range msgs {
		for _, r := range regs {
			if r.ctx.Err() == nil {
				r.h(m)
			}
		}
	}
}

type c07LiveChan struct {
	live *c07Live
	seat int
}

func (c *c07LiveChan) Name() string { return "c07-live" }
func (c *c07LiveChan) Send(_ context.Context, m net.TaggedMarshaler, _ ...net.RetransmissionStrategy) error {
	l := c.live
	cfg := l.cfg
	pm, ok := m.(message)
	if !ok {
		return fmt.Errorf("unexpected payload %T", m)
	}
	// every receiver sees what came over the wire
	wire, ok := c07RoundTrip(pm)
	if !ok {
		return fmt.Errorf("own message does not survive the wire format")
	}
	out := []*c07Msg{{payload: wire, key: cfg.key(c.seat), typ: m.Type(), sender: c.seat}}
	if l.inject && !cfg.isExcluded(c.seat) {
		add := func(label string, sender int, key []byte, session string) {
			f, ok := c07RoundTrip(c07Clone(pm, sender, session))
			if !ok {
				return
			}
			out = append(out, &c07Msg{payload: f, key: key, typ: m.Type(), injected: label})
		}
		for _, e := range cfg.Excluded {
			add(fmt.Sprintf("excluded(%d)", e), e, cfg.key(e), c07Session)
		}
		add(fmt.Sprintf("other-session(%d)", c.seat), c.seat, cfg.key(c.seat), c07OtherSession)
		for _, b := range cfg.operating() {
			if b != c.seat && cfg.op(b) != cfg.op(c.seat) {
				add(fmt.Sprintf("key(%d)-claims(%d)", c.seat, b), b, cfg.key(c.seat), c07Session)
				break
			}
		}
		l.mu.Lock()
		l.forged += len(out) - 1
		l.mu.Unlock()
		// forged copies first: a member that accepted one would take it for the
		// claimed sender's (first-per-sender) message
		out = append(out[1:], out[0])
	}
	l.broadcast(out)
	return nil
}
func (c *c07LiveChan) Recv(ctx context.Context, h func(net.Message)) {
	l := c.live
	l.mu.Lock()
	l.regs = append(l.regs, &c07LiveReg{ctx, h})
	backlog := append([]*c07Msg{}, l.log...)
	l.mu.Unlock()
	for _, m := range backlog {
		h(m)
	}
}
func (c *c07LiveChan) SetUnmarshaler(func() net.TaggedUnmarshaler) {}
func (c *c07LiveChan) SetFilter(net.BroadcastChannelFilter) error  { return nil }

type c07ExecCase struct {
	Cfg    c07Cfg `json:"cfg"`
	Inject bool   `json:"inject"`
	Join   bool   `json:"join"`
	// LateSeat's Execute is started only after every other member has sent its first
	// message (0: all start together).
	LateSeat int `json:"late_seat,omitempty"`
}

func (c c07ExecCase) String() string {
	s := "Execute " + c.Cfg.String()
	if c.Inject {
		s += " +forged-copies"
	}
	if c.Join {
		s += " +excluded-join"
	}
	if c.LateSeat != 0 {
		s += fmt.Sprintf(" late=%d", c.LateSeat)
	}
	return s
}

type c07ExecOut struct {
	res *Result
	err error
}

func c07ExecRun(r *vrep.R, cs c07ExecCase, timeout time.Duration) {
	cfg := cs.Cfg
	live := &c07Live{cfg: cfg, inject: cs.Inject}
	validator := cfg.validator()
	ctx, cancel := context.WithTimeout(context.Background(), timeout)
	defer cancel()
	seats := append([]int{}, cfg.operating()...)
	if cs.Join {
		seats = append(seats, cfg.Excluded...)
	}
	outs := make(map[int]*c07ExecOut)
	var mu sync.Mutex
	var wg sync.WaitGroup
	start := func(seat int) {
		wg.Add(1)
		go func() {
			defer wg.Done()
			var o c07ExecOut
			if p, stack := vrep.Guard(func() {
				o.res, o.err = c07Executor(seat).Execute(
					ctx,
					&testutils.MockLogger{},
					big.NewInt(200),
					c07Session,
					group.MemberIndex(seat),
					cfg.N,
					cfg.N-cfg.H,
					cfg.excludedIndexes(),
					&c07LiveChan{live: live, seat: seat},
					validator,
				)
			}); p != nil {
				o.err = fmt.Errorf("panic: %v\n%s", p, stack)
			}
			mu.Lock()
			outs[seat] = &o
			mu.Unlock()
		}()
	}
	for _, s := range seats {
		if s != cs.LateSeat {
			start(s)
		}
	}
	if cs.LateSeat != 0 {
		// wait until everybody else has sent its first message, then start the late one
		for ctx.Err() == nil {
			live.mu.Lock()
			senders := map[int]bool{}
			for _, m := range live.log {
				if m.injected == "" {
					senders[m.sender] = true
				}
			}
			live.mu.Unlock()
			if len(senders) >= len(seats)-1 {
				break
			}
			time.Sleep(20 * time.Millisecond)
		}
		start(cs.LateSeat)
	}
	wg.Wait()
	timedOut := ctx.Err() != nil

	r.Eval(1)
	r.Distinct(cs.String())
	r.Add("forged_copies_broadcast", int64(live.forged))
	fp := cs.String()
	report := func(kind, what string) {
		r.ViolationMin("exec-"+kind, len(cfg.Excluded)*100+cfg.N*10, fp, what, cs)
	}
	want := c07SetString(cfg.excludedIndexes())
	var finished []int
	keys := map[int]string{}
	mis := map[int]string{}
	misSet := map[int]string{}
	var errs []string
	for _, s := range cfg.operating() {
		o := outs[s]
		if o == nil || o.err != nil || o.res == nil {
			e := "no result"
			if o != nil && o.err != nil {
				e = o.err.Error()
			}
			if strings.HasPrefix(e, "panic") {
				report("panic", fmt.Sprintf("Execute of operating member %d crashed: %s", s, e))
			}
			if len(e) > 70 {
				e = e[:70]
			}
			errs = append(errs, fmt.Sprintf("%d:%s", s, e))
			continue
		}
		kb, err := o.res.GroupPublicKeyBytes()
		if err != nil {
			errs = append(errs, fmt.Sprintf("%d:no key", s))
			continue
		}
		finished = append(finished, s)
		keys[s] = hex.EncodeToString(kb)
		mis[s] = fmt.Sprint(o.res.MisbehavedMembersIndexes())
		misSet[s] = c07SetString(o.res.MisbehavedMembersIndexes())
	}
	sort.Ints(finished)
	for _, s := range finished {
		f := finished[0]
		if keys[s] != keys[f] {
			report("key-disagreement", fmt.Sprintf("operating members %d and %d returned different wallet public keys", f, s))
		}
		if mis[s] != mis[f] {
			report("misbehaved-disagreement", fmt.Sprintf("operating members %d and %d returned different misbehaved lists %s / %s", f, s, mis[f], mis[s]))
		}
		if misSet[s] != want {
			report("misbehaved-not-exclusion-set", fmt.Sprintf("Execute of member %d returned misbehaved list %s, excluded were %s", s, mis[s], want))
		}
	}
	joined := 0
	if cs.Join {
		for _, e := range cfg.Excluded {
			o := outs[e]
			if o != nil && o.err == nil && o.res != nil {
				kb, err := o.res.GroupPublicKeyBytes()
				if err == nil && len(finished) > 0 && hex.EncodeToString(kb) == keys[finished[0]] {
					joined++
					report("excluded-joined", fmt.Sprintf("excluded member %d completed Execute with the wallet key of the operating members", e))
				}
			}
		}
	}
	class := fmt.Sprintf("finishers=%d/%d", len(finished), len(cfg.operating()))
	if len(finished) > 0 {
		class += " misbehaved=" + mis[finished[0]]
	}
	if len(errs) > 0 {
		class += " errors=" + errs[0]
	}
	if timedOut {
		class += " TIMEOUT"
		// a deadline is not a verdict
		r.Cap("Execute still running after " + timeout.String() + ": " + cs.String())
	}
	if len(finished) == len(cfg.operating()) {
		r.Add("runs_all_operating_finished", 1)
	} else {
		r.Add("runs_with_unfinished_operating_member", 1)
	}
	r.Outcome(class)
	r.Sample(map[string]any{"case": cs.String(), "class": class, "forged": live.forged})
}

// c07ExecCases: per exclusion set one run in which the excluded members take part
// (no forged copies: a forged copy accepted by mistake would break the run rather than
// show up in the result) and one run with forged copies and a late starter.
func c07ExecCases(thorough bool) []c07ExecCase {
	if !thorough {
		return []c07ExecCase{
			{Cfg: c07Cfg{N: 3, H: 2, Excluded: []int{3}}, Join: true}, // the highest seat: boundary of every index check
			{Cfg: c07Cfg{N: 3, H: 2, Excluded: []int{1}}, Inject: true, LateSeat: 3},
		}
	}
	var cs []c07ExecCase
	for _, nh := range [][2]int{{5, 3}, {3, 2}} {
		for _, e := range c07ExclusionSets(nh[0], nh[1]) {
			cfg := c07Cfg{N: nh[0], H: nh[1], Excluded: e}
			op := cfg.operating()
			if len(e) > 0 {
				cs = append(cs, c07ExecCase{Cfg: cfg, Join: true})
			}
			cs = append(cs, c07ExecCase{Cfg: cfg, Inject: true, LateSeat: op[len(e)%len(op)]})
		}
	}
	sort.SliceStable(cs, func(a, b int) bool { return len(cs[a].Cfg.Excluded) < len(cs[b].Cfg.Excluded) })
	return cs
}

func TestVerifC07Exec(t *testing.T) {
	r := vrep.Start(t, "C07", "exec")
	defer r.Finish()
	timeout := 3 * time.Minute
	if rd := r.ReplayData(); rd != nil {
		var cs c07ExecCase
		if json.Unmarshal(rd, &cs) == nil && cs.Cfg.N > 0 {
			c07ExecRun(r, cs, timeout)
		}
		return
	}
	cases := c07ExecCases(r.Thorough())
	r.Set("cases", len(cases))
	for i, cs := range cases {
		if !r.Mine(i) {
			continue
		}
		if r.Expired() {
			break
		}
		c07ExecRun(r, cs, timeout)
	}
}
