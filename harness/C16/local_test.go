//go:build verif

package local

import (
	"context"
	"testing"

	"github.com/keep-network/keep-core/pkg/net"
	"github.com/keep-network/keep-core/pkg/net/internal"
	"github.com/keep-network/keep-core/pkg/net/retransmission"
	"github.com/keep-network/keep-core/pkg/operator"
	"github.com/keep-network/keep-core/pkg/verifshim/c16common"
	"github.com/keep-network/keep-core/pkg/verifshim/vrep"
)

type c16Payload struct{}

func (c16Payload) Type() string             { return "c16" }
func (c16Payload) Marshal() ([]byte, error) { return []byte{1}, nil }
func (*c16Payload) Unmarshal([]byte) error  { return nil }

type c16Chan struct {
	lc   *localChannel
	sent func(uint64) error
}

func (a *c16Chan) Recv(ctx context.Context, h func(net.Message)) { a.lc.Recv(ctx, h) }
func (a *c16Chan) Deliver(sender string, seqno uint64) {
	a.lc.deliver(internal.BasicMessage(localIdentifier(sender), &c16Payload{}, "c16", []byte{1}, seqno))
}
func (a *c16Chan) IDString(sender string) string { return localIdentifier(sender).String() }
func (a *c16Chan) Send(ctx context.Context) error { return a.lc.Send(ctx, &c16Payload{}) }

type c16Adapter struct{ key *operator.PublicKey }

func (ad *c16Adapter) CanFailPublish() bool { return false }

func (ad *c16Adapter) New(sent func(uint64) error) c16common.Chan {
	ticks := make(chan uint64)
	lc := &localChannel{
		name:                 "c16",
		identifier:           localIdentifier("self"),
		operatorPublicKey:    ad.key,
		unmarshalersByType:   map[string]func() net.TaggedUnmarshaler{"c16": func() net.TaggedUnmarshaler { return &c16Payload{} }},
		retransmissionTicker: retransmission.NewTicker(ticks),
	}
	// the package-level registry is what Send broadcasts to: exactly this channel, plus
	// a tap that reports the sequence numbers of published messages
	tapCtx := context.Background()
	broadcastChannelsMutex.Lock()
	broadcastChannels = map[string][]*localChannel{"c16": {lc}}
	broadcastChannelsMutex.Unlock()
	// observe published sequence numbers through a never-cancelled receiver
	lc.Recv(tapCtx, func(m net.Message) {
		if m.TransportSenderID().String() == "self" {
			_ = sent(m.Seqno())
		}
	})
	return &c16Chan{lc, sent}
}

func TestVerifC16Local(t *testing.T) {
	r := vrep.Start(t, "C16", "local")
	defer r.Finish()
	_, pub, err := operator.GenerateKeyPair(DefaultCurve)
	if err != nil {
		t.Fatal(err)
	}
	c16common.Run(r, "local", &c16Adapter{pub}, t.Fatalf)
}
