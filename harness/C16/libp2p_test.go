//go:build verif

package libp2p

import (
	"context"
	"crypto/rand"
	"testing"

	libp2pcrypto "github.com/libp2p/go-libp2p/core/crypto"
	"github.com/libp2p/go-libp2p/core/peer"
	pubsub "github.com/libp2p/go-libp2p-pubsub"
	"google.golang.org/protobuf/proto"

	"github.com/keep-network/keep-core/pkg/net"
	"github.com/keep-network/keep-core/pkg/net/gen/pb"
	"github.com/keep-network/keep-core/pkg/net/internal"
	"github.com/keep-network/keep-core/pkg/net/retransmission"
	"github.com/keep-network/keep-core/pkg/verifshim/c16common"
	"github.com/keep-network/keep-core/pkg/verifshim/vrep"
)

type c16Payload struct{}

func (c16Payload) Type() string             { return "c16" }
func (c16Payload) Marshal() ([]byte, error) { return []byte{1}, nil }
func (*c16Payload) Unmarshal([]byte) error  { return nil }

type c16Publisher struct{ sent func(uint64) error }

func (p *c16Publisher) Publish(_ context.Context, data []byte, _ ...pubsub.PubOpt) error {
	var m pb.BroadcastNetworkMessage
	if err := proto.Unmarshal(data, &m); err != nil {
		return err
	}
	return p.sent(m.SequenceNumber)
}

type c16Chan struct{ c *channel }

func (a *c16Chan) Recv(ctx context.Context, h func(net.Message)) { a.c.Recv(ctx, h) }
func (a *c16Chan) Deliver(sender string, seqno uint64) {
	a.c.deliver(internal.BasicMessage(networkIdentity(peer.ID(sender)), &c16Payload{}, "c16", []byte{1}, seqno))
}
func (a *c16Chan) IDString(sender string) string { return networkIdentity(peer.ID(sender)).String() }
func (a *c16Chan) Send(ctx context.Context) error { return a.c.Send(ctx, &c16Payload{}) }

type c16Adapter struct{ id *identity }

func (ad *c16Adapter) CanFailPublish() bool { return true }

func (ad *c16Adapter) New(sent func(uint64) error) c16common.Chan {
	ticks := make(chan uint64)
	c := &channel{
		name:                 "c16",
		clientIdentity:       ad.id,
		publisher:            &c16Publisher{sent},
		unmarshalersByType:   map[string]func() net.TaggedUnmarshaler{},
		retransmissionTicker: retransmission.NewTicker(ticks),
	}
	return &c16Chan{c}
}

func TestVerifC16Libp2p(t *testing.T) {
	r := vrep.Start(t, "C16", "libp2p")
	defer r.Finish()
	priv, _, err := libp2pcrypto.GenerateSecp256k1Key(rand.Reader)
	if err != nil {
		t.Fatal(err)
	}
	id, err := createIdentity(priv)
	if err != nil {
		t.Fatal(err)
	}
	c16common.Run(r, "libp2p", &c16Adapter{id}, t.Fatalf)
}
