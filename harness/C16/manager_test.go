//go:build verif

package libp2p

// C16, unit "manager": every Send draws its sequence number from the channel object, so
// "a fresh sequence number per message sent on a channel" also needs that all users of a
// channel name in one client share ONE channel object. Two callers ask a real provider
// (real libp2p host and pubsub, created once per process) for a channel name nobody asked
// for before; libp2p.go and channel_manager.go are recompiled with their mutexes as
// scheduling points (goroutines, time and channels stay real: topic joins and
// subscriptions are atomic steps here). Every interleaving within the preemption bound.

import (
	"context"
	"encoding/json"
	"fmt"
	"testing"

	"github.com/keep-network/keep-core/pkg/firewall"
	"github.com/keep-network/keep-core/pkg/net"
	"github.com/keep-network/keep-core/pkg/operator"
	"github.com/keep-network/keep-core/pkg/verifshim/vrep"
	"github.com/keep-network/keep-core/pkg/verifshim/vsched"
)

type c16mObs struct {
	chans [3]net.BroadcastChannel
	errs  [3]error
	done  int
}

var c16mCounter int

func c16mBody(p net.Provider, callers int, obs *c16mObs) func() {
	return func() {
		*obs = c16mObs{}
		c16mCounter++
		name := fmt.Sprintf("c16-manager-%d", c16mCounter)
		for i := 0; i < callers; i++ {
			i := i
			vsched.Go(func() {
				obs.chans[i], obs.errs[i] = p.BroadcastChannelFor(name)
				obs.done++
			})
		}
		vsched.Block("callers done", func() bool { return obs.done == callers })
	}
}

type c16mReplay struct {
	Manager bool  `json:"manager"`
	Callers int   `json:"callers"`
	Choices []int `json:"choices"`
	Bound   int   `json:"bound"`
}

func TestVerifC16Manager(t *testing.T) {
	r := vrep.Start(t, "C16", "manager")
	defer r.Finish()
	ctx, cancel := context.WithCancel(context.Background())
	defer cancel()
	operatorPrivateKey, _, err := operator.GenerateKeyPair(DefaultCurve)
	if err != nil {
		t.Fatal(err)
	}
	shard, _ := r.Shard()
	var provider net.Provider
	for try := 0; try < 40; try++ { // the port may be taken by another run on this machine
		provider, err = Connect(ctx, Config{Port: 18080 + shard + 13*try}, operatorPrivateKey, firewall.Disabled, idleTicker())
		if err == nil {
			break
		}
	}
	if err != nil {
		t.Fatalf("Connect: %v", err)
	}
	var obs c16mObs
	evaluate := func(callers, bound int, s *vsched.Sched) {
		r.Eval(1)
		r.Transition(len(s.Choices()) + 1)
		rp := c16mReplay{true, callers, s.Choices(), bound}
		fail := func(kind, what string) {
			r.ViolationMin("manager-"+kind, len(s.Choices()), fmt.Sprintf("manager callers=%d %s", callers, kind), what+" [schedule "+s.Trace()+"]", rp)
		}
		if p, stack := s.Failed(); p != nil {
			fail("panic", fmt.Sprintf("panic: %v\n%s", p, stack))
			return
		}
		if s.StepCapHit {
			r.Cap("manager step-cap")
			return
		}
		if obs.done != callers {
			fail("stuck", fmt.Sprintf("BroadcastChannelFor never returned for every caller: %v", s.Deadlock))
			return
		}
		for i := 0; i < callers; i++ {
			if obs.errs[i] != nil {
				fail("error", fmt.Sprintf("caller %d: %v", i, obs.errs[i]))
				return
			}
			if obs.chans[i].(*channel) != obs.chans[0].(*channel) {
				fail("two-channel-objects", fmt.Sprintf("callers 0 and %d asked for the same new channel name and got two different channel objects: each has its own sequence number counter, so two different messages of this client on this channel carry the same sequence number", i))
				return
			}
		}
		r.Outcome("manager: one channel object")
		if s.Trace() != "" {
			r.Distinct(fmt.Sprintf("m|%d|%v", callers, s.Choices()))
		}
	}
	if rd := r.ReplayData(); rd != nil {
		var rp c16mReplay
		if json.Unmarshal(rd, &rp) == nil && rp.Manager {
			s := vsched.Replay(rp.Choices, vsched.Options{Bound: rp.Bound}, c16mBody(provider, rp.Callers, &obs))
			evaluate(rp.Callers, rp.Bound, s)
		}
		return
	}
	maxBound := 2
	for _, callers := range []int{2, 3} {
		if callers == 3 && !r.Thorough() {
			continue
		}
		for bound := 0; bound <= maxBound; bound++ {
			st := vsched.Explore(vsched.Options{Bound: bound, Stop: r.Expired}, c16mBody(provider, callers, &obs), func(s *vsched.Sched) { evaluate(callers, bound, s) })
			if st.Stopped {
				r.Cap(fmt.Sprintf("manager callers=%d bound %d not completed", callers, bound))
			}
			r.Add(fmt.Sprintf("manager.callers%d.bound%d_execs", callers, bound), st.Execs)
		}
	}
	r.Set("manager_max_preemption_bound", maxBound)
}
