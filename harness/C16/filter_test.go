//go:build verif

package retransmission

// C16, third unit: the duplicate filter itself, called concurrently (the channels call
// it from one goroutine per receiver, but it is documented as thread-safe and a
// message worker pool may drive it directly). 2-3 threads hand the same and different
// messages to one filter; the delegate yields so that "seen" bookkeeping and delegation
// can interleave.

import (
	"encoding/json"
	"fmt"
	"testing"

	"github.com/keep-network/keep-core/pkg/net"
	"github.com/keep-network/keep-core/pkg/verifshim/vrep"
	"github.com/keep-network/keep-core/pkg/verifshim/vsched"
)

type c16fID string

func (i c16fID) String() string { return string(i) }

type c16fMsg struct {
	sender string
	seq    uint64
}

func (m *c16fMsg) TransportSenderID() net.TransportIdentifier { return c16fID(m.sender) }
func (m *c16fMsg) SenderPublicKey() []byte                     { return nil }
func (m *c16fMsg) Payload() interface{}                        { return nil }
func (m *c16fMsg) Type() string                                { return "c16f" }
func (m *c16fMsg) Seqno() uint64                               { return m.seq }

type c16fReplay struct {
	Scenario int   `json:"scenario"`
	Choices  []int `json:"choices"`
	Bound    int   `json:"bound"`
}

func TestVerifC16Filter(t *testing.T) {
	r := vrep.Start(t, "C16", "filter")
	defer r.Finish()
	scenarios := [][][]string{
		{{"A1"}, {"A1"}},
		{{"A1", "B1"}, {"B1", "A1"}},
		{{"A1"}, {"A1"}, {"A1"}},
		{{"A1", "A2"}, {"A1"}},
	}
	seen := map[string]int{}
	body := func(k int) func() {
		return func() {
			seen = map[string]int{}
			f := WithRetransmissionSupport(func(m net.Message) {
				vsched.Yield()
				seen[fmt.Sprintf("%s%d", m.TransportSenderID(), m.Seqno())]++
			})
			for _, w := range scenarios[k] {
				w := w
				vsched.GoDaemon("worker", func() {
					for _, x := range w {
						var seq uint64
						fmt.Sscanf(x[1:], "%d", &seq)
						f(&c16fMsg{x[:1], seq})
					}
				})
			}
		}
	}
	eval := func(k, bound int, s *vsched.Sched) {
		r.Eval(1)
		r.Transition(len(s.Choices()) + 1)
		want := map[string]bool{}
		for _, w := range scenarios[k] {
			for _, x := range w {
				want[x] = true
			}
		}
		rp := c16fReplay{k, s.Choices(), bound}
		if p, stack := s.Failed(); p != nil {
			r.ViolationMin("filter:panic", len(s.Choices()), fmt.Sprintf("filter scenario %d panic", k), fmt.Sprintf("%v\n%s", p, stack), rp)
			return
		}
		for x := range want {
			if seen[x] != 1 {
				r.ViolationMin("filter:count", len(s.Choices()), fmt.Sprintf("filter scenario %v", scenarios[k]),
					fmt.Sprintf("message %s reached the delegate %d times [schedule %s]", x, seen[x], s.Trace()), rp)
			}
		}
		r.State(fmt.Sprintf("%d|%v", k, seen))
		r.Outcome(fmt.Sprintf("scenario %d: %d keys", k, len(seen)))
		if s.Trace() != "" {
			r.Distinct(fmt.Sprintf("%d|%v", k, s.Choices()))
		}
	}
	if rd := r.ReplayData(); rd != nil {
		var rp c16fReplay
		if json.Unmarshal(rd, &rp) == nil && string(rd) != "null" {
			s := vsched.Replay(rp.Choices, vsched.Options{Bound: rp.Bound}, body(rp.Scenario))
			eval(rp.Scenario, rp.Bound, s)
		}
		return
	}
	maxBound := 3
	for k := range scenarios {
		if k >= 2 && !r.Thorough() {
			maxBound = 2
		}
		for bound := 0; bound <= maxBound; bound++ {
			st := vsched.Explore(vsched.Options{Bound: bound, Stop: r.Expired}, body(k), func(s *vsched.Sched) { eval(k, bound, s) })
			if st.Stopped {
				r.Cap(fmt.Sprintf("scenario %d bound %d not completed", k, bound))
			}
		}
	}
	// long-lived handler: many distinct messages, then a retransmission of the first ones
	// (single thread, one execution): the filter must still know them. 3000 distinct ids
	// is what a channel handler sees within minutes of a key generation.
	{
		seenLong := map[string]int{}
		f := WithRetransmissionSupport(func(m net.Message) {
			seenLong[fmt.Sprintf("%s%d", m.TransportSenderID(), m.Seqno())]++
		})
		const distinct = 3000
		for k := uint64(1); k <= distinct; k++ {
			f(&c16fMsg{"A", k})
			if k%7 == 0 {
				f(&c16fMsg{"B", k})
			}
		}
		for _, k := range []uint64{1, 2, 7, 1024, 1025, 2048, distinct} {
			f(&c16fMsg{"A", k})
		}
		r.Eval(1)
		r.Transition(distinct + 7)
		for k, n := range seenLong {
			if n != 1 {
				r.ViolationMin("filter:long-lived", 1, "filter long-lived handler",
					fmt.Sprintf("after %d distinct messages a retransmission of %s reached the delegate again (%d deliveries)", distinct, k, n), nil)
				break
			}
		}
		r.Distinct("long-lived")
		r.Outcome(fmt.Sprintf("long-lived handler: %d ids", len(seenLong)))
	}
	r.Sample(map[string]any{"unit": "filter", "scenarios": scenarios})
}
