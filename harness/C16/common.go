//go:build verif

// Package c16common holds the scenario and oracle shared by the two C16 units (libp2p
// channel and local channel): receivers registering and cancelling, network workers
// delivering (sender, seqno) messages with duplicates, concurrent Sends.
package c16common

import (
	"context"
	"encoding/json"
	"fmt"
	"sort"

	"github.com/keep-network/keep-core/pkg/net"
	"github.com/keep-network/keep-core/pkg/verifshim/vctx"
	"github.com/keep-network/keep-core/pkg/verifshim/vrep"
	"github.com/keep-network/keep-core/pkg/verifshim/vsched"
)

// Adapter is what a unit provides: a fresh channel under test per execution.
type Adapter interface {
	// New builds a fresh channel; sent receives the sequence number of every message the
	// channel publishes through Send (first transmissions and retransmissions).
	New(sent func(seqno uint64) error) Chan
	// CanFailPublish: the channel's Send has a publish step that may fail.
	CanFailPublish() bool
}

type Chan interface {
	Recv(ctx context.Context, handler func(m net.Message))
	// Deliver injects one incoming network message (as a message worker would).
	Deliver(sender string, seqno uint64)
	// IDString renders a sender the way its transport identifier prints.
	IDString(sender string) string
	// Send sends one message through the channel's real Send.
	Send(ctx context.Context) error
}

type Scenario struct {
	Name    string     `json:"name"`
	Workers [][]string `json:"workers"` // per network worker: list of "A1" = sender A, seqno 1
	Cancel  bool       `json:"cancel"`  // receiver 1 is cancelled at some point
	LateReg bool       `json:"late_reg"`
	Senders int        `json:"senders"` // concurrent Send callers (seqno leg)
	NoR1    bool       `json:"no_r1"`   // receiver 1 (the cancellable one) absent
	NoR2    bool       `json:"no_r2"`   // receiver 2 absent
	// FailFirstPublish: the first publish attempt of the channel fails (transport error);
	// the Send that hit it reports the error, later Sends must still get fresh numbers.
	FailFirstPublish bool `json:"fail_first_publish,omitempty"`
	// MaxBound caps the preemption bound of the scenario (0 = the unit's bound, -1 = no
	// preemption at all: only the free choices).
	MaxBound int `json:"max_bound,omitempty"`
}

type obs struct {
	handled       [2]map[string]int
	afterCancel   []string // violations detected online
	cancelDone    bool
	startedBefore map[string]bool // some delivery of the key began before cancel returned
	seqnos        []uint64
	sendErr       error
}

func body(a Adapter, sc Scenario, o *obs) func() {
	return func() {
		*o = obs{startedBefore: map[string]bool{}}
		o.handled[0], o.handled[1] = map[string]int{}, map[string]int{}
		publishes := 0
		ch := a.New(func(s uint64) error {
			o.seqnos = append(o.seqnos, s)
			publishes++
			if sc.FailFirstPublish && publishes == 1 {
				return fmt.Errorf("publish failed")
			}
			return nil
		})
		ctx1, cancel1 := vctx.WithCancel(context.Background())
		ctx2, cancel2 := vctx.WithCancel(context.Background())
		_ = cancel2
		reg := func(i int, ctx context.Context) {
			ch.Recv(ctx, func(m net.Message) {
				key := fmt.Sprintf("%s%d", m.TransportSenderID().String(), m.Seqno())
				o.handled[i][key]++

				if i == 0 && o.cancelDone && !o.startedBefore[key] {
					o.afterCancel = append(o.afterCancel, key)
				}
			})
		}
		if !sc.NoR1 {
			reg(0, ctx1)
		}
		if !sc.LateReg && !sc.NoR2 {
			reg(1, ctx2)
		}
		for _, w := range sc.Workers {
			w := w
			vsched.GoDaemon("worker", func() {
				for _, k := range w {
					var seq uint64
					fmt.Sscanf(k[1:], "%d", &seq)
					if !o.cancelDone {
						o.startedBefore[fmt.Sprintf("%s%d", ch.IDString(k[:1]), seq)] = true
					}
					ch.Deliver(k[:1], seq)
				}
			})
		}
		if sc.LateReg {
			vsched.GoDaemon("late-receiver", func() { reg(1, ctx2) })
		}
		if sc.Cancel {
			vsched.GoDaemon("canceller", func() {
				cancel1()
				o.cancelDone = true
			})
		}
		for i := 0; i < sc.Senders; i++ {
			vsched.GoDaemon("sender", func() {
				if err := ch.Send(ctx2); err != nil && !sc.FailFirstPublish {
					o.sendErr = err
				}
			})
		}
		_ = cancel1
	}
}

type replay struct {
	Scenario Scenario `json:"scenario"`
	Choices  []int    `json:"choices"`
	Bound    int      `json:"bound"`
}

func evaluate(r *vrep.R, unit string, sc Scenario, bound int, s *vsched.Sched, o *obs) {
	r.Eval(1)
	r.Transition(len(s.Choices()) + 1)
	rp := replay{sc, s.Choices(), bound}
	fail := func(kind, what string) {
		r.ViolationMin(unit+":"+kind, len(s.Choices()), fmt.Sprintf("%s %s %s", unit, sc.Name, kind), what+" [schedule "+s.Trace()+"]", rp)
	}
	if p, stack := s.Failed(); p != nil {
		fail("panic", fmt.Sprintf("panic: %v\n%s", p, stack))
		return
	}
	if s.StepCapHit {
		r.Cap("step-cap")
		return
	}
	if o.sendErr != nil {
		fail("send-error", fmt.Sprintf("Send failed: %v", o.sendErr))
	}
	for i := 0; i < 2; i++ {
		for k, n := range o.handled[i] {
			if n > 1 {
				fail("duplicate", fmt.Sprintf("receiver %d saw message %s %d times", i+1, k, n))
			}
		}
	}
	for _, k := range o.afterCancel {
		fail("after-cancel", fmt.Sprintf("receiver 1 saw message %s although every delivery of it began after its context's cancel() had returned", k))
	}
	// sequence numbers of distinct Sends are pairwise distinct: with retransmissions
	// the set of distinct numbers published must have one element per Send call
	if sc.Senders > 0 {
		set := map[uint64]bool{}
		for _, q := range o.seqnos {
			set[q] = true
		}
		if len(set) != sc.Senders {
			fail("seqno", fmt.Sprintf("%d concurrent Sends published sequence numbers %v: %d distinct values", sc.Senders, o.seqnos, len(set)))
		}
	}
	var h [2][]string
	for i := 0; i < 2; i++ {
		for k := range o.handled[i] {
			h[i] = append(h[i], k)
		}
		sort.Strings(h[i])
	}
	key := fmt.Sprintf("%s|r1=%v|r2=%v|cancel=%v", sc.Name, h[0], h[1], o.cancelDone)
	r.State(key)
	r.Outcome(fmt.Sprintf("r1 saw %d, r2 saw %d", len(h[0]), len(h[1])))

	if s.Trace() != "" {
		r.Distinct(fmt.Sprintf("%s|%v", sc.Name, s.Choices()))
	}
}

func Scenarios(thorough bool) []Scenario {
	scs := []Scenario{
		// two workers deliver the same message concurrently to one receiver
		{Name: "dup-race", Workers: [][]string{{"A1"}, {"A1"}}, NoR1: true},
		// a retransmission follows on the same worker while another message interleaves
		{Name: "dup-seq", Workers: [][]string{{"A1", "A1"}}, NoR1: true},
		// cancellation racing with a delivery
		{Name: "cancel", Workers: [][]string{{"A1"}}, Cancel: true, NoR2: true},
		{Name: "concurrent-sends", Senders: 2, NoR1: true, NoR2: true},
		{Name: "sends-first-publish-fails", Senders: 2, NoR1: true, NoR2: true, FailFirstPublish: true},
	}
	if thorough {
		// (cheapest first; the scenarios with two receivers or four deliveries have about a
		// million executions at bound 1 and are not taken to bound 2)
		scs = append(scs,
			Scenario{Name: "late-registration", Workers: [][]string{{"A1", "A1"}}, LateReg: true, NoR1: true},
			Scenario{Name: "sends-3", Senders: 3, NoR1: true, NoR2: true, MaxBound: 1},
			Scenario{Name: "cancel-2workers", Workers: [][]string{{"A1"}, {"A1"}}, Cancel: true, MaxBound: -1},
			Scenario{Name: "dups-2senders", Workers: [][]string{{"A1", "B1"}, {"B1", "A1"}}, NoR1: true, MaxBound: 1},
			Scenario{Name: "dups-2receivers", Workers: [][]string{{"A1", "A1"}, {"A1"}}, MaxBound: 1},
		)
	}
	return scs
}

// Run is the whole unit test body.
func Run(r *vrep.R, unit string, a Adapter, fatalf func(string, ...any)) {
	var o obs
	opts := func(bound int) vsched.Options {
		return vsched.Options{Bound: bound, Horizon: 4, Stop: r.Expired}
	}
	if rd := r.ReplayData(); rd != nil {
		var rp replay
		if json.Unmarshal(rd, &rp) == nil && rp.Scenario.Name != "" {
			s := vsched.Replay(rp.Choices, opts(rp.Bound), body(a, rp.Scenario, &o))
			evaluate(r, unit, rp.Scenario, rp.Bound, s, &o)
		}
		return
	}
	maxBound := 2
	shard, shards := r.Shard()
	for i, sc := range Scenarios(r.Thorough()) {
		if sc.FailFirstPublish && !a.CanFailPublish() {
			continue
		}
		if i == 0 && shard == 0 {
			x := vsched.Replay(nil, opts(0), body(a, sc, &o))
			ox := fmt.Sprint(o.handled, o.seqnos)
			y := vsched.Replay(nil, opts(0), body(a, sc, &o))
			if !vsched.SameRun(x, y) || ox != fmt.Sprint(o.handled, o.seqnos) {
				fatalf("NONDETERMINISM: two runs of the empty script differ")
			}
			r.ReplayedTwice(1)
			r.Sample(map[string]any{"unit": unit, "scenario": sc, "script": x.Choices(), "handled": fmt.Sprint(o.handled)})
		}
		scBound := maxBound
		if sc.MaxBound > 0 && sc.MaxBound < scBound {
			scBound = sc.MaxBound
		} else if sc.MaxBound < 0 {
			scBound = 0
		}
		for bound := 0; bound <= scBound; bound++ {
			if bound < scBound && shard != 0 {
				continue
			}
			op := opts(bound)
			op.Shard, op.Shards = shard, shards
			st := vsched.Explore(op, body(a, sc, &o), func(s *vsched.Sched) { evaluate(r, unit, sc, bound, s, &o) })
			if bound < scBound {
				r.Set(fmt.Sprintf("%s.bound%d_execs", sc.Name, bound), st.Execs)
			} else {
				r.Add(fmt.Sprintf("%s.bound%d_execs", sc.Name, bound), st.Execs)
			}
			if st.Stopped {
				r.Cap(fmt.Sprintf("%s bound %d not completed", sc.Name, bound))
			}
		}
	}
	r.Set("max_preemption_bound", maxBound)
}
