//go:build verif

package libp2p

import (
	"context"
	"sync"
	"testing"

	"github.com/libp2p/go-libp2p/core/peer"

	"github.com/keep-network/keep-core/pkg/net"
	"github.com/keep-network/keep-core/pkg/net/internal"
	"github.com/keep-network/keep-core/pkg/verifshim/vrep"
)

type c16rPayload struct{}

// Free-running pass under the race detector: concurrent deliveries, registration and
// cancellation on the real (uninstrumented) channel with real goroutines.
func TestVerifC16Race(t *testing.T) {
	r := vrep.Start(t, "C16", "race")
	defer r.Finish()
	if r.ReplayData() != nil {
		return
	}
	rounds := 50
	if r.Thorough() {
		rounds = 2000
	}
	for i := 0; i < rounds; i++ {
		c := &channel{name: "c16r", unmarshalersByType: map[string]func() net.TaggedUnmarshaler{}}
		ctx1, cancel1 := context.WithCancel(context.Background())
		ctx2, cancel2 := context.WithCancel(context.Background())
		var mu sync.Mutex
		n := 0
		h := func(net.Message) { mu.Lock(); n++; mu.Unlock() }
		c.Recv(ctx1, h)
		var wg sync.WaitGroup
		for w := 0; w < 3; w++ {
			wg.Add(1)
			go func() {
				defer wg.Done()
				for k := uint64(1); k <= 3; k++ {
					c.deliver(internal.BasicMessage(networkIdentity(peer.ID("A")), &c16rPayload{}, "c16", []byte{1}, k))
					_ = c.nextSeqno()
				}
			}()
		}
		c.Recv(ctx2, h)
		cancel1()
		wg.Wait()
		cancel2()
		r.Eval(1)
	}
	r.Distinct("deliver-vs-cancel")
	r.Distinct("deliver-vs-register")
	r.Outcome("completed")
	r.Sample("3 workers x 3 deliveries racing with a second registration and a cancellation, real goroutines under -race")
}
