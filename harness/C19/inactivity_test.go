//go:build verif

package inactivity

import (
	"bytes"
	"fmt"
	"testing"

	"github.com/keep-network/keep-core/pkg/protocol/group"
	"github.com/keep-network/keep-core/pkg/protocol/inactivity/gen/pb"
	"github.com/keep-network/keep-core/pkg/verifshim/c19"
	"github.com/keep-network/keep-core/pkg/verifshim/vrep"
)

func TestVerifC19Inactivity(t *testing.T) {
	r := vrep.Start(t, "C19", "inactivity")
	defer r.Finish()
	var h ClaimHash
	for i := range h {
		h[i] = byte(0xd0 + i)
	}
	vals := []c19.Value{{Name: "typical", V: &claimSignatureMessage{senderID: 10, claimHash: h, signature: []byte("signature"), publicKey: []byte("pubkey"), sessionID: "session-1"}}}
	for _, id := range []group.MemberIndex{0, 1, 255} {
		for pi, p := range [][]byte{nil, {1}, bytes.Repeat([]byte{0xaa}, 300)} {
			for si, s := range []string{"", "s"} {
				vals = append(vals, c19.Value{Name: fmt.Sprintf("sender=%d/bytes#%d/session#%d", id, pi, si),
					V: &claimSignatureMessage{senderID: id, claimHash: ClaimHash{}, signature: p, publicKey: p, sessionID: s}})
			}
		}
	}
	c19.Run(r, []c19.Type{{Name: "inactivity.claimSignatureMessage", New: func() c19.Codec { return &claimSignatureMessage{} },
		Values: vals, Desc: (&pb.ClaimSignatureMessage{}).ProtoReflect().Descriptor(), MaxBases: 3}})
}
