//go:build verif

package registry

import (
	"fmt"
	"math/big"
	"testing"

	bn256 "github.com/ethereum/go-ethereum/crypto/bn256/cloudflare"

	"github.com/keep-network/keep-core/pkg/beacon/dkg"
	"github.com/keep-network/keep-core/pkg/beacon/registry/gen/pb"
	"github.com/keep-network/keep-core/pkg/chain"
	"github.com/keep-network/keep-core/pkg/protocol/group"
	"github.com/keep-network/keep-core/pkg/verifshim/c19"
	"github.com/keep-network/keep-core/pkg/verifshim/vrep"
)

func TestVerifC19Registry(t *testing.T) {
	r := vrep.Start(t, "C19", "beacon-registry")
	defer r.Finish()
	g2 := func(k int64) *bn256.G2 { return new(bn256.G2).ScalarBaseMult(big.NewInt(k)) }
	big256 := new(big.Int).Sub(new(big.Int).Lsh(big.NewInt(1), 256), big.NewInt(1))
	vals := []c19.Value{{Name: "typical", V: &Membership{
		Signer: dkg.NewThresholdSigner(2, g2(10), big.NewInt(1),
			map[group.MemberIndex]*bn256.G2{1: g2(10), 2: g2(11)}, []chain.Address{"address1", "address2"}),
		ChannelName: "channel_test_name"}}}
	for _, id := range []group.MemberIndex{0, 1, 255} {
		for si, share := range []*big.Int{big.NewInt(0), big256, big.NewInt(-5)} {
			for k := 0; k <= 2; k++ {
				shares := map[group.MemberIndex]*bn256.G2{}
				var ops []chain.Address
				for j := 0; j < k; j++ {
					shares[[]group.MemberIndex{255, 0}[j]] = g2(int64(20 + j))
					ops = append(ops, chain.Address(fmt.Sprintf("operator-%d", j)))
				}
				vals = append(vals, c19.Value{Name: fmt.Sprintf("member=%d/share#%d/entries=%d", id, si, k),
					V: &Membership{Signer: dkg.NewThresholdSigner(id, g2(int64(k)+1), share, shares, ops), ChannelName: []string{"", "c"}[k%2]}})
			}
		}
	}
	c19.Run(r, []c19.Type{{Name: "beacon/registry.Membership", New: func() c19.Codec { return &Membership{} },
		Values: vals, Desc: (&pb.Membership{}).ProtoReflect().Descriptor(), MaxBases: 3}})
}
