//go:build verif

package entry

import (
	"bytes"
	"fmt"
	"testing"

	"github.com/keep-network/keep-core/pkg/beacon/entry/gen/pb"
	"github.com/keep-network/keep-core/pkg/protocol/group"
	"github.com/keep-network/keep-core/pkg/verifshim/c19"
	"github.com/keep-network/keep-core/pkg/verifshim/vrep"
)

func TestVerifC19Entry(t *testing.T) {
	r := vrep.Start(t, "C19", "beacon-entry")
	defer r.Finish()
	vals := []c19.Value{{Name: "typical", V: &SignatureShareMessage{senderID: 8, shareBytes: []byte{1, 2, 3, 4, 5, 6}, sessionID: "session-1"}}}
	for _, id := range []group.MemberIndex{0, 1, 255} {
		for pi, p := range [][]byte{nil, {1}, bytes.Repeat([]byte{0xaa}, 300)} {
			for si, s := range []string{"", "s"} {
				vals = append(vals, c19.Value{Name: fmt.Sprintf("sender=%d/bytes#%d/session#%d", id, pi, si), V: &SignatureShareMessage{senderID: id, shareBytes: p, sessionID: s}})
			}
		}
	}
	c19.Run(r, []c19.Type{{Name: "beacon/entry.SignatureShareMessage", New: func() c19.Codec { return &SignatureShareMessage{} },
		Values: vals, Desc: (&pb.SignatureShare{}).ProtoReflect().Descriptor(), MaxBases: 3}})
}
