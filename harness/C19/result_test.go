//go:build verif

package result

import (
	"bytes"
	"fmt"
	"testing"

	"github.com/keep-network/keep-core/pkg/beacon/chain"
	"github.com/keep-network/keep-core/pkg/beacon/dkg/result/gen/pb"
	"github.com/keep-network/keep-core/pkg/protocol/group"
	"github.com/keep-network/keep-core/pkg/verifshim/c19"
	"github.com/keep-network/keep-core/pkg/verifshim/vrep"
)

func TestVerifC19Result(t *testing.T) {
	r := vrep.Start(t, "C19", "beacon-result")
	defer r.Finish()
	var h chain.DKGResultHash
	for i := range h {
		h[i] = byte(0xe0 + i)
	}
	vals := []c19.Value{{Name: "typical", V: &DKGResultHashSignatureMessage{senderIndex: 10, resultHash: h, signature: []byte("signature"), publicKey: []byte("pubkey"), sessionID: "session-1"}}}
	for _, id := range []group.MemberIndex{0, 1, 255} {
		for pi, p := range [][]byte{nil, {1}, bytes.Repeat([]byte{0xaa}, 300)} {
			for si, s := range []string{"", "s"} {
				vals = append(vals, c19.Value{Name: fmt.Sprintf("sender=%d/bytes#%d/session#%d", id, pi, si),
					V: &DKGResultHashSignatureMessage{senderIndex: id, resultHash: chain.DKGResultHash{}, signature: p, publicKey: p, sessionID: s}})
			}
		}
	}
	c19.Run(r, []c19.Type{{Name: "beacon/result.DKGResultHashSignatureMessage", New: func() c19.Codec { return &DKGResultHashSignatureMessage{} },
		Values: vals, Desc: (&pb.DKGResultHashSignature{}).ProtoReflect().Descriptor(), MaxBases: 3}})
}
