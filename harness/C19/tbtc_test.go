//go:build verif

package tbtc

import (
	"bytes"
	"fmt"
	"math/big"
	"testing"

	"github.com/keep-network/keep-core/pkg/bitcoin"
	"github.com/keep-network/keep-core/pkg/chain"
	"github.com/keep-network/keep-core/pkg/protocol/group"
	"github.com/keep-network/keep-core/pkg/tbtc/gen/pb"
	"github.com/keep-network/keep-core/pkg/tecdsa"
	"github.com/keep-network/keep-core/pkg/verifshim/c19"
	"github.com/keep-network/keep-core/pkg/verifshim/vrep"
)

func c19Hash(seed byte) bitcoin.Hash {
	var h bitcoin.Hash
	for i := range h {
		h[i] = seed + byte(i)
	}
	return h
}

func c19Wallet(seed byte) [20]byte {
	var h [20]byte
	for i := range h {
		h[i] = seed ^ byte(i*7)
	}
	return h
}

func c19Proposals() map[string][]c19.Value {
	big256 := new(big.Int).Sub(new(big.Int).Lsh(big.NewInt(1), 256), big.NewInt(1))
	type key = struct {
		FundingTxHash      bitcoin.Hash
		FundingOutputIndex uint32
	}
	out := map[string][]c19.Value{}
	out["heartbeat"] = []c19.Value{
		{Name: "typical", V: &HeartbeatProposal{Message: [16]byte{0xff, 0xff, 0xff, 0xff, 0xff, 0xff, 0xff, 0xff, 1, 2, 3, 4, 5, 6, 7, 8}}},
		{Name: "zero", V: &HeartbeatProposal{}},
	}
	out["deposit-sweep"] = []c19.Value{
		{Name: "typical", V: &DepositSweepProposal{
			DepositsKeys:         []key{{c19Hash(1), 0}, {c19Hash(9), 1}},
			SweepTxFee:           big.NewInt(10000),
			DepositsRevealBlocks: []*big.Int{big.NewInt(100), big.NewInt(300)},
		}},
		{Name: "boundary", V: &DepositSweepProposal{
			DepositsKeys:         []key{{c19Hash(0xf0), ^uint32(0)}},
			SweepTxFee:           big256,
			DepositsRevealBlocks: []*big.Int{big.NewInt(0), new(big.Int).SetUint64(1<<63 - 1)},
		}},
		{Name: "empty", V: &DepositSweepProposal{SweepTxFee: big.NewInt(0)}},
		{Name: "reveal-block-2^63", V: &DepositSweepProposal{SweepTxFee: big.NewInt(1), DepositsRevealBlocks: []*big.Int{new(big.Int).SetUint64(1 << 63)}}},
	}
	out["redemption"] = []c19.Value{
		{Name: "typical", V: &RedemptionProposal{
			RedeemersOutputScripts: []bitcoin.Script{bytes.Repeat([]byte{0x14}, 22), bytes.Repeat([]byte{0x76}, 25)},
			RedemptionTxFee:        big.NewInt(10000),
		}},
		{Name: "boundary", V: &RedemptionProposal{RedeemersOutputScripts: []bitcoin.Script{{}, bytes.Repeat([]byte{1}, 300)}, RedemptionTxFee: big256}},
		{Name: "empty", V: &RedemptionProposal{RedemptionTxFee: big.NewInt(0)}},
	}
	out["moving-funds"] = []c19.Value{
		{Name: "typical", V: &MovingFundsProposal{TargetWallets: [][20]byte{c19Wallet(1), c19Wallet(2)}, MovingFundsTxFee: big.NewInt(10000)}},
		{Name: "boundary", V: &MovingFundsProposal{TargetWallets: [][20]byte{{}}, MovingFundsTxFee: big256}},
		{Name: "empty", V: &MovingFundsProposal{MovingFundsTxFee: big.NewInt(0)}},
	}
	out["moved-funds-sweep"] = []c19.Value{
		{Name: "typical", V: &MovedFundsSweepProposal{MovingFundsTxHash: c19Hash(3), MovingFundsTxOutputIndex: 3, SweepTxFee: big.NewInt(8000)}},
		{Name: "boundary", V: &MovedFundsSweepProposal{MovingFundsTxHash: c19Hash(0xff), MovingFundsTxOutputIndex: ^uint32(0), SweepTxFee: big256}},
		{Name: "zero", V: &MovedFundsSweepProposal{SweepTxFee: big.NewInt(0)}},
	}
	out["noop"] = []c19.Value{{Name: "noop", V: &NoopProposal{}}}
	return out
}

func TestVerifC19Tbtc(t *testing.T) {
	r := vrep.Start(t, "C19", "tbtc")
	defer r.Finish()
	props := c19Proposals()

	// persisted wallet signers (storage)
	var signers []c19.Value
	for _, idx := range []group.MemberIndex{1, 255} {
		for _, nops := range []int{5, 0, 1} {
			s := createMockSigner(t)
			s.signingGroupMemberIndex = idx
			s.wallet.signingGroupOperators = append([]chain.Address{}, s.wallet.signingGroupOperators[:nops]...)
			signers = append(signers, c19.Value{Name: fmt.Sprintf("fixture/member=%d/operators=%d", idx, nops), V: s})
		}
	}

	// signing done messages
	big256 := new(big.Int).Sub(new(big.Int).Lsh(big.NewInt(1), 256), big.NewInt(1))
	var dones []c19.Value
	dones = append(dones, c19.Value{Name: "typical", V: &signingDoneMessage{senderID: 10, message: big.NewInt(100), attemptNumber: 2,
		signature: &tecdsa.Signature{R: big.NewInt(200), S: big.NewInt(300), RecoveryID: 3}, endBlock: 4500}})
	for _, id := range []group.MemberIndex{0, 1, 255} {
		for mi, m := range []*big.Int{big.NewInt(0), big256} {
			for _, rec := range []int8{-128, 0, 127} {
				for _, blk := range []uint64{0, ^uint64(0)} {
					dones = append(dones, c19.Value{Name: fmt.Sprintf("sender=%d/message#%d/recovery=%d/block=%d", id, mi, rec, blk),
						V: &signingDoneMessage{senderID: id, message: m, attemptNumber: blk, signature: &tecdsa.Signature{R: m, S: big.NewInt(1), RecoveryID: rec}, endBlock: blk}})
				}
			}
		}
	}

	// coordination messages: one per proposal value
	var coords []c19.Value
	for _, kind := range []string{"deposit-sweep", "heartbeat", "redemption", "moving-funds", "moved-funds-sweep", "noop"} {
		for i, pv := range props[kind] {
			id := group.MemberIndex(1)
			blk := uint64(900)
			if i%2 == 1 {
				id, blk = 255, ^uint64(0)
			}
			coords = append(coords, c19.Value{Name: kind + "/" + pv.Name,
				V: &coordinationMessage{senderID: id, coordinationBlock: blk, walletPublicKeyHash: c19Wallet(byte(i)), proposal: pv.V.(CoordinationProposal)}})
		}
	}

	types := []c19.Type{
		{Name: "tbtc.signer", New: func() c19.Codec { return &signer{} }, Values: signers, Desc: (&pb.Signer{}).ProtoReflect().Descriptor(), MaxBases: 1},
		{Name: "tbtc.signingDoneMessage", New: func() c19.Codec { return &signingDoneMessage{} }, Values: dones, Desc: (&pb.SigningDoneMessage{}).ProtoReflect().Descriptor(), MaxBases: 3},
		{Name: "tbtc.coordinationMessage", New: func() c19.Codec { return &coordinationMessage{} }, Values: coords, Desc: (&pb.CoordinationMessage{}).ProtoReflect().Descriptor()},
		{Name: "tbtc.HeartbeatProposal", New: func() c19.Codec { return &HeartbeatProposal{} }, Values: props["heartbeat"], Desc: (&pb.HeartbeatProposal{}).ProtoReflect().Descriptor()},
		{Name: "tbtc.DepositSweepProposal", New: func() c19.Codec { return &DepositSweepProposal{} }, Values: props["deposit-sweep"], Desc: (&pb.DepositSweepProposal{}).ProtoReflect().Descriptor()},
		{Name: "tbtc.RedemptionProposal", New: func() c19.Codec { return &RedemptionProposal{} }, Values: props["redemption"], Desc: (&pb.RedemptionProposal{}).ProtoReflect().Descriptor()},
		{Name: "tbtc.MovingFundsProposal", New: func() c19.Codec { return &MovingFundsProposal{} }, Values: props["moving-funds"], Desc: (&pb.MovingFundsProposal{}).ProtoReflect().Descriptor()},
		{Name: "tbtc.MovedFundsSweepProposal", New: func() c19.Codec { return &MovedFundsSweepProposal{} }, Values: props["moved-funds-sweep"], Desc: (&pb.MovedFundsSweepProposal{}).ProtoReflect().Descriptor()},
		{Name: "tbtc.NoopProposal", New: func() c19.Codec { return &NoopProposal{} }, Values: props["noop"]},
	}
	c19.Run(r, types)
}
