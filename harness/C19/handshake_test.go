//go:build verif

package handshake

import (
	"fmt"
	"strings"
	"testing"

	"github.com/keep-network/keep-core/pkg/net/gen/pb"
	"github.com/keep-network/keep-core/pkg/verifshim/c19"
	"github.com/keep-network/keep-core/pkg/verifshim/vrep"
)

func TestVerifC19Handshake(t *testing.T) {
	r := vrep.Start(t, "C19", "handshake")
	defer r.Finish()
	nonces := []uint64{0, 1, 1 << 32, ^uint64(0)}
	protocols := []string{"", "keep", strings.Repeat("p", 300)}
	var ch [32]byte
	for i := range ch {
		ch[i] = byte(i + 1)
	}
	var a1, a2, a3 []c19.Value
	for _, n := range nonces {
		for pi, p := range protocols {
			a1 = append(a1, c19.Value{Name: fmt.Sprintf("nonce=%d/protocol#%d", n, pi), V: &Act1Message{nonce1: n, protocol1: p}})
			a2 = append(a2, c19.Value{Name: fmt.Sprintf("nonce=%d/protocol#%d", n, pi), V: &Act2Message{nonce2: n, challenge: ch, protocol2: p}})
		}
	}
	a2 = append(a2, c19.Value{Name: "zero", V: &Act2Message{}})
	a3 = append(a3, c19.Value{Name: "challenge", V: &Act3Message{challenge: ch}}, c19.Value{Name: "zero", V: &Act3Message{}})
	c19.Run(r, []c19.Type{
		{Name: "handshake.Act1Message", New: func() c19.Codec { return &Act1Message{} }, Values: a1, Desc: (&pb.Act1Message{}).ProtoReflect().Descriptor(), MaxBases: 6},
		{Name: "handshake.Act2Message", New: func() c19.Codec { return &Act2Message{} }, Values: a2, Desc: (&pb.Act2Message{}).ProtoReflect().Descriptor(), MaxBases: 6},
		{Name: "handshake.Act3Message", New: func() c19.Codec { return &Act3Message{} }, Values: a3, Desc: (&pb.Act3Message{}).ProtoReflect().Descriptor()},
	})
}
