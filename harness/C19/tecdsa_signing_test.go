//go:build verif

package signing

import (
	"bytes"
	"fmt"
	"testing"

	"github.com/keep-network/keep-core/pkg/crypto/ephemeral"
	"github.com/keep-network/keep-core/pkg/protocol/group"
	"github.com/keep-network/keep-core/pkg/tecdsa/signing/gen/pb"
	"github.com/keep-network/keep-core/pkg/verifshim/c19"
	"github.com/keep-network/keep-core/pkg/verifshim/vrep"
)

func c19Pub(k byte) *ephemeral.PublicKey {
	priv := ephemeral.UnmarshalPrivateKey([]byte{k})
	return (*ephemeral.PublicKey)(&priv.PublicKey)
}

func TestVerifC19TecdsaSigning(t *testing.T) {
	r := vrep.Start(t, "C19", "tecdsa-signing")
	defer r.Finish()
	ids := []group.MemberIndex{0, 1, 2, 255}
	payloads := [][]byte{nil, {0x01}, bytes.Repeat([]byte{0xab}, 300)}
	sessions := []string{"", "session-1"}
	peers := []map[group.MemberIndex][]byte{
		{},
		{1: {0x01, 0x02}},
		{2: {0x03}, 255: bytes.Repeat([]byte{0xcd}, 40), 0: {}},
	}
	eph := []c19.Value{
		{Name: "typical", V: &ephemeralPublicKeyMessage{senderID: 38, ephemeralPublicKeys: map[group.MemberIndex]*ephemeral.PublicKey{211: c19Pub(1), 19: c19Pub(2)}, sessionID: "session-1"}},
		{Name: "one-key/max-index", V: &ephemeralPublicKeyMessage{senderID: 255, ephemeralPublicKeys: map[group.MemberIndex]*ephemeral.PublicKey{255: c19Pub(3)}, sessionID: ""}},
		{Name: "no-keys", V: &ephemeralPublicKeyMessage{senderID: 0, ephemeralPublicKeys: map[group.MemberIndex]*ephemeral.PublicKey{}, sessionID: "s"}},
	}
	// broadcast-only rounds share one shape
	type mk func(id group.MemberIndex, p []byte, s string) c19.Codec
	bcast := func(f mk) []c19.Value {
		vals := []c19.Value{{Name: "typical", V: f(2, []byte{1, 2, 3, 4, 5}, "session-1")}}
		for _, id := range ids {
			for pi, p := range payloads {
				for si, s := range sessions {
					vals = append(vals, c19.Value{Name: fmt.Sprintf("sender=%d/payload#%d/session#%d", id, pi, si), V: f(id, p, s)})
				}
			}
		}
		return vals
	}
	r1 := []c19.Value{{Name: "typical", V: &tssRoundOneMessage{senderID: 2, broadcastPayload: []byte{1, 2, 3}, peersPayload: map[group.MemberIndex][]byte{1: {6, 7}, 3: {8, 9}}, sessionID: "session-1"}}}
	r2 := []c19.Value{{Name: "typical", V: &tssRoundTwoMessage{senderID: 2, peersPayload: map[group.MemberIndex][]byte{1: {6, 7}, 3: {8, 9}}, sessionID: "session-1"}}}
	for _, id := range ids {
		for si, s := range sessions {
			for qi, q := range peers {
				r2 = append(r2, c19.Value{Name: fmt.Sprintf("sender=%d/session#%d/peers#%d", id, si, qi), V: &tssRoundTwoMessage{senderID: id, peersPayload: q, sessionID: s}})
				for pi, p := range payloads {
					r1 = append(r1, c19.Value{Name: fmt.Sprintf("sender=%d/payload#%d/session#%d/peers#%d", id, pi, si, qi), V: &tssRoundOneMessage{senderID: id, broadcastPayload: p, peersPayload: q, sessionID: s}})
				}
			}
		}
	}
	c19.Run(r, []c19.Type{
		{Name: "tecdsa/signing.ephemeralPublicKeyMessage", New: func() c19.Codec { return &ephemeralPublicKeyMessage{} }, Values: eph, Desc: (&pb.EphemeralPublicKeyMessage{}).ProtoReflect().Descriptor()},
		{Name: "tecdsa/signing.tssRoundOneMessage", New: func() c19.Codec { return &tssRoundOneMessage{} }, Values: r1, Desc: (&pb.TSSRoundOneMessage{}).ProtoReflect().Descriptor(), MaxBases: 3},
		{Name: "tecdsa/signing.tssRoundTwoMessage", New: func() c19.Codec { return &tssRoundTwoMessage{} }, Values: r2, Desc: (&pb.TSSRoundTwoMessage{}).ProtoReflect().Descriptor(), MaxBases: 3},
		{Name: "tecdsa/signing.tssRoundThreeMessage", New: func() c19.Codec { return &tssRoundThreeMessage{} }, Desc: (&pb.TSSRoundThreeMessage{}).ProtoReflect().Descriptor(), MaxBases: 3,
			Values: bcast(func(id group.MemberIndex, p []byte, s string) c19.Codec {
				return &tssRoundThreeMessage{senderID: id, broadcastPayload: p, sessionID: s}
			})},
		{Name: "tecdsa/signing.tssRoundFourMessage", New: func() c19.Codec { return &tssRoundFourMessage{} }, Desc: (&pb.TSSRoundFourMessage{}).ProtoReflect().Descriptor(), MaxBases: 3,
			Values: bcast(func(id group.MemberIndex, p []byte, s string) c19.Codec {
				return &tssRoundFourMessage{senderID: id, broadcastPayload: p, sessionID: s}
			})},
		{Name: "tecdsa/signing.tssRoundFiveMessage", New: func() c19.Codec { return &tssRoundFiveMessage{} }, Desc: (&pb.TSSRoundFiveMessage{}).ProtoReflect().Descriptor(), MaxBases: 3,
			Values: bcast(func(id group.MemberIndex, p []byte, s string) c19.Codec {
				return &tssRoundFiveMessage{senderID: id, broadcastPayload: p, sessionID: s}
			})},
		{Name: "tecdsa/signing.tssRoundSixMessage", New: func() c19.Codec { return &tssRoundSixMessage{} }, Desc: (&pb.TSSRoundSixMessage{}).ProtoReflect().Descriptor(), MaxBases: 3,
			Values: bcast(func(id group.MemberIndex, p []byte, s string) c19.Codec {
				return &tssRoundSixMessage{senderID: id, broadcastPayload: p, sessionID: s}
			})},
		{Name: "tecdsa/signing.tssRoundSevenMessage", New: func() c19.Codec { return &tssRoundSevenMessage{} }, Desc: (&pb.TSSRoundSevenMessage{}).ProtoReflect().Descriptor(), MaxBases: 3,
			Values: bcast(func(id group.MemberIndex, p []byte, s string) c19.Codec {
				return &tssRoundSevenMessage{senderID: id, broadcastPayload: p, sessionID: s}
			})},
		{Name: "tecdsa/signing.tssRoundEightMessage", New: func() c19.Codec { return &tssRoundEightMessage{} }, Desc: (&pb.TSSRoundEightMessage{}).ProtoReflect().Descriptor(), MaxBases: 3,
			Values: bcast(func(id group.MemberIndex, p []byte, s string) c19.Codec {
				return &tssRoundEightMessage{senderID: id, broadcastPayload: p, sessionID: s}
			})},
		{Name: "tecdsa/signing.tssRoundNineMessage", New: func() c19.Codec { return &tssRoundNineMessage{} }, Desc: (&pb.TSSRoundNineMessage{}).ProtoReflect().Descriptor(), MaxBases: 3,
			Values: bcast(func(id group.MemberIndex, p []byte, s string) c19.Codec {
				return &tssRoundNineMessage{senderID: id, broadcastPayload: p, sessionID: s}
			})},
	})
}
