//go:build verif

package tecdsa

import (
	"fmt"
	"math/big"
	"testing"

	"github.com/bnb-chain/tss-lib/crypto"
	"github.com/bnb-chain/tss-lib/crypto/paillier"
	"github.com/bnb-chain/tss-lib/ecdsa/keygen"

	"github.com/keep-network/keep-core/pkg/internal/tecdsatest"
	"github.com/keep-network/keep-core/pkg/tecdsa/gen/pb"
	"github.com/keep-network/keep-core/pkg/verifshim/c19"
	"github.com/keep-network/keep-core/pkg/verifshim/vrep"
)

func c19Point(k int64) *crypto.ECPoint {
	x, y := Curve.ScalarBaseMult(big.NewInt(k).Bytes())
	p, err := crypto.NewECPoint(Curve, x, y)
	if err != nil {
		panic(err)
	}
	return p
}

// c19SmallShare builds a structurally complete key share over small numbers with n
// parties.
func c19SmallShare(n int, v int64) *PrivateKeyShare {
	b := func(x int64) *big.Int { return big.NewInt(x) }
	d := keygen.LocalPartySaveData{
		LocalPreParams: keygen.LocalPreParams{
			PaillierSK: &paillier.PrivateKey{PublicKey: paillier.PublicKey{N: b(v + 15)}, LambdaN: b(v + 4), PhiN: b(v + 8)},
			NTildei:    b(v + 21), H1i: b(v + 2), H2i: b(v + 3), Alpha: b(v + 5), Beta: b(v + 6), P: b(v + 7), Q: b(v + 11),
		},
		LocalSecrets: keygen.LocalSecrets{Xi: b(v + 9), ShareID: b(v + 1)},
		ECDSAPub:     c19Point(v + 2),
	}
	for i := 0; i < n; i++ {
		k := int64(i) + v
		d.Ks = append(d.Ks, b(k+1))
		d.NTildej = append(d.NTildej, b(k+21))
		d.H1j = append(d.H1j, b(k+2))
		d.H2j = append(d.H2j, b(k+3))
		d.BigXj = append(d.BigXj, c19Point(k+5))
		d.PaillierPKs = append(d.PaillierPKs, &paillier.PublicKey{N: b(k + 15)})
	}
	return NewPrivateKeyShare(d)
}

func TestVerifC19Tecdsa(t *testing.T) {
	r := vrep.Start(t, "C19", "tecdsa")
	defer r.Finish()
	fixtures, err := tecdsatest.LoadPrivateKeyShareTestFixtures(2)
	if err != nil {
		t.Fatalf("fixtures: %v", err)
	}
	shares := []c19.Value{
		{Name: "small/2-parties", V: c19SmallShare(2, 1)},
		{Name: "fixture-0", V: NewPrivateKeyShare(fixtures[0])},
		{Name: "fixture-1", V: NewPrivateKeyShare(fixtures[1])},
		{Name: "small/0-parties", V: c19SmallShare(0, 1)},
		{Name: "small/1-party/zeros", V: c19SmallShare(1, 0)},
		{Name: "small/3-parties", V: c19SmallShare(3, 200)},
	}
	big256 := new(big.Int).Sub(new(big.Int).Lsh(big.NewInt(1), 256), big.NewInt(1))
	sigs := []c19.Value{{Name: "typical", V: &Signature{R: big.NewInt(200), S: big.NewInt(300), RecoveryID: 3}}}
	for ri, rr := range []*big.Int{big.NewInt(0), big.NewInt(1), big256} {
		for si, ss := range []*big.Int{big.NewInt(0), big256} {
			for _, id := range []int8{-128, -1, 0, 1, 127} {
				sigs = append(sigs, c19.Value{Name: fmt.Sprintf("r#%d/s#%d/recovery=%d", ri, si, id), V: &Signature{R: rr, S: ss, RecoveryID: id}})
			}
		}
	}
	c19.Run(r, []c19.Type{
		{Name: "tecdsa.PrivateKeyShare", New: func() c19.Codec { return &PrivateKeyShare{} }, Values: shares, Desc: (&pb.PrivateKeyShare{}).ProtoReflect().Descriptor(), MaxBases: 2},
		{Name: "tecdsa.Signature", New: func() c19.Codec { return &Signature{} }, Values: sigs, Desc: (&pb.Signature{}).ProtoReflect().Descriptor(), MaxBases: 3},
	})
}
