//go:build verif

package gjkr

import (
	"bytes"
	"fmt"
	"math/big"
	"testing"

	bn256 "github.com/ethereum/go-ethereum/crypto/bn256/cloudflare"

	"github.com/keep-network/keep-core/pkg/beacon/gjkr/gen/pb"
	"github.com/keep-network/keep-core/pkg/crypto/ephemeral"
	"github.com/keep-network/keep-core/pkg/protocol/group"
	"github.com/keep-network/keep-core/pkg/verifshim/c19"
	"github.com/keep-network/keep-core/pkg/verifshim/vrep"
)

func c19Priv(k byte) *ephemeral.PrivateKey { return ephemeral.UnmarshalPrivateKey([]byte{k}) }
func c19Pub(k byte) *ephemeral.PublicKey {
	priv := c19Priv(k)
	return (*ephemeral.PublicKey)(&priv.PublicKey)
}
func c19G1(k int64) *bn256.G1 { return new(bn256.G1).ScalarBaseMult(big.NewInt(k)) }
func c19G2(k int64) *bn256.G2 { return new(bn256.G2).ScalarBaseMult(big.NewInt(k)) }

func TestVerifC19Gjkr(t *testing.T) {
	r := vrep.Start(t, "C19", "gjkr")
	defer r.Finish()
	ids := []group.MemberIndex{0, 1, 255}
	sessions := []string{"", "session-1"}
	name := func(id group.MemberIndex, si, k int) string {
		return fmt.Sprintf("sender=%d/session#%d/entries#%d", id, si, k)
	}

	var eph, com, shr, ssa, pts, pac, mis []c19.Value
	eph = append(eph, c19.Value{Name: "typical", V: &EphemeralPublicKeyMessage{senderID: 38, ephemeralPublicKeys: map[group.MemberIndex]*ephemeral.PublicKey{211: c19Pub(1), 19: c19Pub(2)}, sessionID: "session-1"}})
	com = append(com, c19.Value{Name: "typical", V: &MemberCommitmentsMessage{senderID: 141, commitments: []*bn256.G1{c19G1(966), c19G1(1385), c19G1(1569)}, sessionID: "session-1"}})
	shr = append(shr, c19.Value{Name: "typical", V: &PeerSharesMessage{senderID: 97, shares: map[group.MemberIndex]*peerShares{
		112: {encryptedShareS: []byte{1, 2, 3, 4, 5}, encryptedShareT: []byte{15, 14, 13, 12, 11}},
		223: {encryptedShareS: []byte{10, 14, 15, 15, 15}, encryptedShareT: []byte{1, 15, 14, 14, 13}}}, sessionID: "session-1"}})
	ssa = append(ssa, c19.Value{Name: "typical", V: &SecretSharesAccusationsMessage{senderID: 12, accusedMembersKeys: map[group.MemberIndex]*ephemeral.PrivateKey{10: c19Priv(7), 20: c19Priv(9)}, sessionID: "session-1"}})
	pts = append(pts, c19.Value{Name: "typical", V: &MemberPublicKeySharePointsMessage{senderID: 98, publicKeySharePoints: []*bn256.G2{c19G2(18), c19G2(19)}, sessionID: "session-1"}})
	pac = append(pac, c19.Value{Name: "typical", V: &PointsAccusationsMessage{senderID: 12, accusedMembersKeys: map[group.MemberIndex]*ephemeral.PrivateKey{10: c19Priv(7), 20: c19Priv(9)}, sessionID: "session-1"}})
	mis = append(mis, c19.Value{Name: "typical", V: &MisbehavedEphemeralKeysMessage{senderID: 12, privateKeys: map[group.MemberIndex]*ephemeral.PrivateKey{10: c19Priv(7), 20: c19Priv(9)}, sessionID: "session-1"}})
	for _, id := range ids {
		for si, s := range sessions {
			for k := 0; k <= 3; k += 1 {
				pubs := map[group.MemberIndex]*ephemeral.PublicKey{}
				privs := map[group.MemberIndex]*ephemeral.PrivateKey{}
				shs := map[group.MemberIndex]*peerShares{}
				var g1 []*bn256.G1
				var g2 []*bn256.G2
				for j := 0; j < k; j++ {
					idx := []group.MemberIndex{255, 0, 7}[j]
					pubs[idx] = c19Pub(byte(3 + j))
					privs[idx] = c19Priv(byte(200 + j))
					shs[idx] = &peerShares{encryptedShareS: bytes.Repeat([]byte{byte(j)}, j*100), encryptedShareT: []byte{byte(j)}}
					g1 = append(g1, c19G1(int64(j)+1))
					g2 = append(g2, c19G2(int64(j)+1))
				}
				n := name(id, si, k)
				eph = append(eph, c19.Value{Name: n, V: &EphemeralPublicKeyMessage{senderID: id, ephemeralPublicKeys: pubs, sessionID: s}})
				com = append(com, c19.Value{Name: n, V: &MemberCommitmentsMessage{senderID: id, commitments: g1, sessionID: s}})
				shr = append(shr, c19.Value{Name: n, V: &PeerSharesMessage{senderID: id, shares: shs, sessionID: s}})
				ssa = append(ssa, c19.Value{Name: n, V: &SecretSharesAccusationsMessage{senderID: id, accusedMembersKeys: privs, sessionID: s}})
				pts = append(pts, c19.Value{Name: n, V: &MemberPublicKeySharePointsMessage{senderID: id, publicKeySharePoints: g2, sessionID: s}})
				pac = append(pac, c19.Value{Name: n, V: &PointsAccusationsMessage{senderID: id, accusedMembersKeys: privs, sessionID: s}})
				mis = append(mis, c19.Value{Name: n, V: &MisbehavedEphemeralKeysMessage{senderID: id, privateKeys: privs, sessionID: s}})
			}
		}
	}
	c19.Run(r, []c19.Type{
		{Name: "gjkr.EphemeralPublicKeyMessage", New: func() c19.Codec { return &EphemeralPublicKeyMessage{} }, Values: eph, Desc: (&pb.EphemeralPublicKey{}).ProtoReflect().Descriptor(), MaxBases: 3},
		{Name: "gjkr.MemberCommitmentsMessage", New: func() c19.Codec { return &MemberCommitmentsMessage{} }, Values: com, Desc: (&pb.MemberCommitments{}).ProtoReflect().Descriptor(), MaxBases: 3},
		{Name: "gjkr.PeerSharesMessage", New: func() c19.Codec { return &PeerSharesMessage{} }, Values: shr, Desc: (&pb.PeerShares{}).ProtoReflect().Descriptor(), MaxBases: 3},
		{Name: "gjkr.SecretSharesAccusationsMessage", New: func() c19.Codec { return &SecretSharesAccusationsMessage{} }, Values: ssa, Desc: (&pb.SecretSharesAccusations{}).ProtoReflect().Descriptor(), MaxBases: 3},
		{Name: "gjkr.MemberPublicKeySharePointsMessage", New: func() c19.Codec { return &MemberPublicKeySharePointsMessage{} }, Values: pts, Desc: (&pb.MemberPublicKeySharePoints{}).ProtoReflect().Descriptor(), MaxBases: 3},
		{Name: "gjkr.PointsAccusationsMessage", New: func() c19.Codec { return &PointsAccusationsMessage{} }, Values: pac, Desc: (&pb.PointsAccusations{}).ProtoReflect().Descriptor(), MaxBases: 3},
		{Name: "gjkr.MisbehavedEphemeralKeysMessage", New: func() c19.Codec { return &MisbehavedEphemeralKeysMessage{} }, Values: mis, Desc: (&pb.MisbehavedEphemeralKeys{}).ProtoReflect().Descriptor(), MaxBases: 3},
	})
}
