//go:build verif

package announcer

import (
	"fmt"
	"strings"
	"testing"

	"github.com/keep-network/keep-core/pkg/protocol/announcer/gen/pb"
	"github.com/keep-network/keep-core/pkg/protocol/group"
	"github.com/keep-network/keep-core/pkg/verifshim/c19"
	"github.com/keep-network/keep-core/pkg/verifshim/vrep"
)

func TestVerifC19Announcer(t *testing.T) {
	r := vrep.Start(t, "C19", "announcer")
	defer r.Finish()
	var vals []c19.Value
	for _, id := range []group.MemberIndex{0, 1, 2, 255} {
		for pi, p := range []string{"", "protocol", strings.Repeat("x", 200)} {
			for si, s := range []string{"", "session-1"} {
				vals = append(vals, c19.Value{Name: fmt.Sprintf("sender=%d/protocol#%d/session#%d", id, pi, si),
					V: &announcementMessage{senderID: id, protocolID: p, sessionID: s}})
			}
		}
	}
	// a typical value first: it is a mutation base
	vals = append([]c19.Value{{Name: "typical", V: &announcementMessage{senderID: 2, protocolID: "protocol", sessionID: "session-1"}}}, vals...)
	c19.Run(r, []c19.Type{
		{Name: "announcer.announcementMessage", New: func() c19.Codec { return &announcementMessage{} }, Values: vals,
			Desc: (&pb.AnnouncementMessage{}).ProtoReflect().Descriptor(), MaxBases: 4},
	})
}
