//go:build verif

// Package c19 is the shared engine of the C19 harness (decoder totality and round
// trip). It is injected as the virtual package pkg/verifshim/c19 and used by one small
// registration file per package under test.
//
// It contains a tiny protobuf wire-format parser (tag / length / value, nothing else),
// the generators of the structured input space and the oracle.
package c19

import (
	"encoding/hex"
	"encoding/json"
	"fmt"
	"reflect"
	"regexp"
	"sort"
	"strings"
	"sync"

	"google.golang.org/protobuf/reflect/protoreflect"

	"github.com/keep-network/keep-core/pkg/verifshim/vrep"
)

// Codec is what every message / record type under test implements.
type Codec interface {
	Marshal() ([]byte, error)
	Unmarshal([]byte) error
}

// Value is one constructed value of a type.
type Value struct {
	Name string
	V    Codec
}

// Type registers one message / record type.
type Type struct {
	Name   string       // e.g. "tbtc.signer"
	New    func() Codec // fresh zero value to decode into
	Values []Value      // constructed values: round-trip cases and mutation bases
	// Equal compares a constructed value with its decoded copy (nil: reflect.DeepEqual).
	Equal func(a, b Codec) bool
	// Desc optionally names the fields of the wire message in reports.
	Desc protoreflect.MessageDescriptor
	// MaxBases limits how many of the Values are used as mutation bases (0: all).
	MaxBases int
}

// ---------------------------------------------------------------------------------------
// wire format

// Node is one field occurrence of a wire message.
type Node struct {
	Num  uint64
	WT   int     // 0 varint, 1 fixed64, 2 length-delimited, 5 fixed32
	Val  []byte  // varint: its encoding; fixed: the 4/8 bytes; LEN: the payload
	Kids []*Node // LEN payload that itself is a well-formed non-empty message
	id   int
}

func uvarint(b []byte) (uint64, int) {
	var x uint64
	for i := 0; i < len(b) && i < 10; i++ {
		c := b[i]
		if i == 9 && c > 1 {
			return 0, -1
		}
		x |= uint64(c&0x7f) << (7 * uint(i))
		if c < 0x80 {
			return x, i + 1
		}
	}
	return 0, -1
}

func putUvarint(x uint64) []byte {
	var o []byte
	for x >= 0x80 {
		o = append(o, byte(x)|0x80)
		x >>= 7
	}
	return append(o, byte(x))
}

// Parse splits b into field occurrences; ok is false when b is not a well-formed
// sequence of (tag, value) records. depth limits nesting.
func Parse(b []byte, depth int) (nodes []*Node, ok bool) {
	for len(b) > 0 {
		tag, n := uvarint(b)
		if n < 0 {
			return nil, false
		}
		b = b[n:]
		num, wt := tag>>3, int(tag&7)
		if num == 0 || num > 1<<29-1 {
			return nil, false
		}
		nd := &Node{Num: num, WT: wt}
		switch wt {
		case 0:
			_, m := uvarint(b)
			if m < 0 {
				return nil, false
			}
			nd.Val, b = b[:m], b[m:]
		case 1:
			if len(b) < 8 {
				return nil, false
			}
			nd.Val, b = b[:8], b[8:]
		case 5:
			if len(b) < 4 {
				return nil, false
			}
			nd.Val, b = b[:4], b[4:]
		case 2:
			l, m := uvarint(b)
			if m < 0 || uint64(len(b)-m) < l {
				return nil, false
			}
			nd.Val, b = b[m:m+int(l)], b[m+int(l):]
			if depth > 0 && len(nd.Val) > 0 {
				if kids, ok := Parse(nd.Val, depth-1); ok && plausible(kids) {
					nd.Kids = kids
				}
			}
		default:
			return nil, false
		}
		nodes = append(nodes, nd)
	}
	return nodes, true
}

// plausible: nested payloads are only treated as messages when their field numbers
// are small (random key material rarely passes).
func plausible(kids []*Node) bool {
	for _, k := range kids {
		if k.Num > 32 {
			return false
		}
	}
	return len(kids) > 0
}

func number(nodes []*Node, next *int, all *[]*Node) {
	for _, n := range nodes {
		n.id = *next
		*next++
		*all = append(*all, n)
		number(n.Kids, next, all)
	}
}

type edit struct {
	drop    bool
	dup     bool
	replace []byte // new value (varint: encoded; LEN: payload)
	retag   int    // 1+new wire type when set
}

func encodeNodes(nodes []*Node, edits map[int]edit) []byte {
	var o []byte
	for _, n := range nodes {
		e, has := edits[n.id]
		if has && e.drop {
			continue
		}
		one := encodeNode(n, e, has, edits)
		o = append(o, one...)
		if has && e.dup {
			o = append(o, one...)
		}
	}
	return o
}

func encodeNode(n *Node, e edit, has bool, edits map[int]edit) []byte {
	wt := n.WT
	val := n.Val
	if n.Kids != nil {
		val = encodeNodes(n.Kids, edits)
	}
	if has && e.replace != nil {
		val = e.replace
	}
	if has && e.retag > 0 {
		wt = e.retag - 1
		switch wt {
		case 0:
			val = []byte{1}
		case 1:
			val = make([]byte, 8)
		case 5:
			val = make([]byte, 4)
		case 2:
			val = []byte{}
		}
	}
	o := putUvarint(n.Num<<3 | uint64(wt))
	if wt == 2 {
		o = append(o, putUvarint(uint64(len(val)))...)
	}
	return append(o, val...)
}

// canonical orders map-entry-shaped siblings of the same field number by their bytes,
// so that the (randomly ordered) encoding of Go maps becomes a deterministic base.
func canonical(nodes []*Node) {
	for _, n := range nodes {
		canonical(n.Kids)
	}
	entry := func(n *Node) bool {
		if n.WT != 2 || len(n.Kids) == 0 || len(n.Kids) > 2 {
			return false
		}
		for _, k := range n.Kids {
			if k.Num != 1 && k.Num != 2 {
				return false
			}
		}
		return true
	}
	i := 0
	for i < len(nodes) {
		j := i
		for j < len(nodes) && nodes[j].Num == nodes[i].Num && entry(nodes[j]) {
			j++
		}
		if j-i > 1 {
			run := nodes[i:j]
			sort.SliceStable(run, func(a, b int) bool {
				return string(encodeNode(run[a], edit{}, false, nil)) < string(encodeNode(run[b], edit{}, false, nil))
			})
		}
		if j == i {
			j++
		}
		i = j
	}
}

// pathName renders the path to a node with field names where the descriptor knows them.
func pathName(path []*Node, desc protoreflect.MessageDescriptor) string {
	var parts []string
	for _, n := range path {
		name := fmt.Sprintf("%d", n.Num)
		if desc != nil {
			if fd := desc.Fields().ByNumber(protoreflect.FieldNumber(n.Num)); fd != nil {
				name = fmt.Sprintf("%s(%d)", fd.Name(), n.Num)
				desc = fd.Message() // nil for scalars / bytes
			} else {
				desc = nil
			}
		}
		parts = append(parts, name)
	}
	return strings.Join(parts, ".")
}

// ---------------------------------------------------------------------------------------
// input generation

type input struct {
	label string        // run-independent description of the mutation
	bytes func() []byte // generated lazily (some inputs are large)
}

type base struct {
	value string
	enc   []byte
}

func mutations(b base, desc protoreflect.MessageDescriptor, thorough bool) []input {
	var ins []input
	enc := b.enc
	pre := "base=" + b.value + " "
	ins = append(ins, input{pre + "unchanged", func() []byte { return enc }})
	// (ii) every proper prefix
	for l := 0; l < len(enc); l++ {
		l := l
		ins = append(ins, input{fmt.Sprintf("%sprefix %d/%d", pre, l, len(enc)), func() []byte { return enc[:l] }})
	}
	nodes, ok := Parse(enc, 6)
	if !ok {
		return ins
	}
	var all []*Node
	next := 0
	number(nodes, &next, &all)
	// paths
	paths := make([]string, len(all))
	parent := make([]int, len(all))
	var walk func(ns []*Node, path []*Node, par int)
	walk = func(ns []*Node, path []*Node, par int) {
		for _, n := range ns {
			p := append(append([]*Node{}, path...), n)
			paths[n.id] = pathName(p, desc)
			parent[n.id] = par
			walk(n.Kids, p, n.id)
		}
	}
	walk(nodes, nil, -1)
	// occurrence index among equally named siblings keeps labels unique
	seen := map[string]int{}
	for i := range paths {
		key := fmt.Sprintf("%d|%s", parent[i], paths[i])
		seen[key]++
		if seen[key] > 1 {
			paths[i] = fmt.Sprintf("%s#%d", paths[i], seen[key])
		}
	}
	ancestor := func(a, d int) bool {
		for d = parent[d]; d >= 0; d = parent[d] {
			if d == a {
				return true
			}
		}
		return false
	}
	gen := func(label string, edits map[int]edit) {
		ins = append(ins, input{pre + label, func() []byte { return encodeNodes(nodes, edits) }})
	}
	// (iii) delete every field occurrence, and every pair, at any depth
	for i := range all {
		gen("delete "+paths[i], map[int]edit{i: {drop: true}})
	}
	pairLimit := 140
	if thorough {
		pairLimit = 400
	}
	if len(all) <= pairLimit {
		for i := range all {
			for j := i + 1; j < len(all); j++ {
				if ancestor(i, j) {
					continue
				}
				gen("delete "+paths[i]+" and "+paths[j], map[int]edit{i: {drop: true}, j: {drop: true}})
			}
		}
	}
	// thorough: every triple of occurrences for small messages
	if thorough && len(all) <= 30 {
		for i := range all {
			for j := i + 1; j < len(all); j++ {
				for k := j + 1; k < len(all); k++ {
					if ancestor(i, j) || ancestor(i, k) || ancestor(j, k) {
						continue
					}
					gen("delete "+paths[i]+" and "+paths[j]+" and "+paths[k], map[int]edit{i: {drop: true}, j: {drop: true}, k: {drop: true}})
				}
			}
		}
	}
	// (iv) substitutions
	scalars := []uint64{0, 1, 255, 256, 1<<32 - 1, 1 << 32, 1 << 63, 1<<64 - 1}
	for i, n := range all {
		switch n.WT {
		case 0:
			for _, v := range scalars {
				gen(fmt.Sprintf("set %s=%d", paths[i], v), map[int]edit{i: {replace: putUvarint(v)}})
			}
		case 1, 5:
			zero := make([]byte, len(n.Val))
			ones := make([]byte, len(n.Val))
			for k := range ones {
				ones[k] = 0xff
			}
			gen("set "+paths[i]+"=0", map[int]edit{i: {replace: zero}})
			gen("set "+paths[i]+"=max", map[int]edit{i: {replace: ones}})
		case 2:
			gen("set "+paths[i]+"=empty", map[int]edit{i: {replace: []byte{}}})
			gen("set "+paths[i]+"=00", map[int]edit{i: {replace: []byte{0}}})
			gen("set "+paths[i]+"=ff", map[int]edit{i: {replace: []byte{0xff}}})
			if len(n.Val) > 1 {
				gen("set "+paths[i]+"=first-byte-dropped", map[int]edit{i: {replace: append([]byte{}, n.Val[1:]...)}})
				gen("set "+paths[i]+"=last-byte-dropped", map[int]edit{i: {replace: append([]byte{}, n.Val[:len(n.Val)-1]...)}})
				flipped := append([]byte{}, n.Val...)
				flipped[0] ^= 0x80
				gen("set "+paths[i]+"=first-bit-flipped", map[int]edit{i: {replace: flipped}})
				// same length, different content: the last bit flipped (an encoded curve
				// point becomes an off-curve point, a scalar an adjacent scalar, …) and
				// the whole payload zeroed / set to ff behind its first byte
				last := append([]byte{}, n.Val...)
				last[len(last)-1] ^= 0x01
				gen("set "+paths[i]+"=last-bit-flipped", map[int]edit{i: {replace: last}})
				zeros := append([]byte{}, n.Val...)
				ffs := append([]byte{}, n.Val...)
				for k := 1; k < len(zeros); k++ {
					zeros[k], ffs[k] = 0, 0xff
				}
				gen("set "+paths[i]+"=zeros-behind-first-byte", map[int]edit{i: {replace: zeros}})
				gen("set "+paths[i]+"=ff-behind-first-byte", map[int]edit{i: {replace: ffs}})
			}
			gen("set "+paths[i]+"=one-byte-longer", map[int]edit{i: {replace: append(append([]byte{}, n.Val...), 0)}})
			if thorough && parent[i] < 0 || thorough && len(all) <= 24 {
				i := i
				ins = append(ins, input{pre + "set " + paths[i] + "=1MiB", func() []byte {
					return encodeNodes(nodes, map[int]edit{i: {replace: make([]byte, 1<<20)}})
				}})
			}
		}
		gen("duplicate "+paths[i], map[int]edit{i: {dup: true}})
		for _, wt := range []int{0, 1, 2, 5} {
			if wt != n.WT {
				gen(fmt.Sprintf("retype %s as wiretype %d", paths[i], wt), map[int]edit{i: {retag: wt + 1}})
			}
		}
	}
	return ins
}

// shortStrings: (v) all byte strings of length <= 2.
func shortStrings() []input {
	ins := []input{{"bytes <empty>", func() []byte { return []byte{} }}}
	for a := 0; a < 256; a++ {
		a := a
		ins = append(ins, input{fmt.Sprintf("bytes %02x", a), func() []byte { return []byte{byte(a)} }})
	}
	return ins
}

// ---------------------------------------------------------------------------------------
// oracle

// Replay is the payload of a violation.
type Replay struct {
	Type  string `json:"type"`
	Check string `json:"check"` // decode | roundtrip
	Hex   string `json:"input_hex,omitempty"`
	Value string `json:"value,omitempty"`
	Label string `json:"mutation,omitempty"`
}

var frameRe = regexp.MustCompile(`/repo/(pkg/[^\s:]+\.go):(\d+)`)

// site extracts the innermost keep-core (non-harness) frame of a panic stack.
func site(stack string) string {
	for _, m := range frameRe.FindAllStringSubmatch(stack, -1) {
		if strings.Contains(m[1], "zz_verif") || strings.Contains(m[1], "verifshim") {
			continue
		}
		return m[1] + ":" + m[2]
	}
	return "unknown-site"
}

type runner struct {
	r     *vrep.R
	mu    sync.Mutex
	sites map[string]string // kind -> smallest description
	sizes map[string]int
}

func (rn *runner) note(kind string, size int, descr string) {
	rn.mu.Lock()
	defer rn.mu.Unlock()
	if old, ok := rn.sizes[kind]; !ok || size < old || size == old && descr < rn.sites[kind] {
		rn.sizes[kind], rn.sites[kind] = size, descr
	}
}

// decode runs the oracle on one input.
func (rn *runner) decode(t *Type, label string, b []byte) {
	r := rn.r
	r.Eval(1)
	if _, ok := Parse(b, 0); ok {
		r.Distinct(t.Name + "|" + string(b))
	}
	v := t.New()
	var err error
	rp := func() Replay {
		h := hex.EncodeToString(b)
		if len(h) > 1<<16 {
			h = "" // reproducible from the mutation label
		}
		return Replay{Type: t.Name, Check: "decode", Hex: h, Label: label}
	}
	p, stack := vrep.Guard(func() { err = v.Unmarshal(b) })
	if p != nil {
		kind := t.Name + ":unmarshal-panic@" + site(stack)
		rn.note(kind, len(b), label)
		r.ViolationMin(kind, len(b), t.Name+" Unmarshal "+label,
			fmt.Sprintf("%s.Unmarshal panicked on %d-byte input (%s): %v at %s", t.Name, len(b), label, p, site(stack)), rp())
		r.Outcome(t.Name + ":panic")
		return
	}
	if err != nil {
		r.Outcome(t.Name + ":error")
		return
	}
	r.Outcome(t.Name + ":value")
	var out []byte
	var merr error
	p, stack = vrep.Guard(func() { out, merr = v.Marshal() })
	if p != nil {
		kind := t.Name + ":remarshal-panic@" + site(stack)
		rn.note(kind, len(b), label)
		r.ViolationMin(kind, len(b), t.Name+" Marshal-after-Unmarshal "+label,
			fmt.Sprintf("%s.Unmarshal accepted a %d-byte input (%s) but the decoded value panics in Marshal: %v at %s", t.Name, len(b), label, p, site(stack)), rp())
		return
	}
	if merr != nil {
		return // refusing to encode is not a crash
	}
	// the decoded value is a value of the type: encoding and decoding it again must
	// give an equal value
	v2 := t.New()
	var err2 error
	p, stack = vrep.Guard(func() { err2 = v2.Unmarshal(out) })
	if p != nil {
		kind := t.Name + ":unmarshal-panic@" + site(stack)
		rn.note(kind, len(b), label+" (second decode)")
		r.ViolationMin(kind, len(b), t.Name+" Unmarshal-of-own-encoding "+label,
			fmt.Sprintf("%s: decoding the re-encoded value panicked: %v at %s", t.Name, p, site(stack)), rp())
		return
	}
	if err2 != nil || !t.equal(v, v2) {
		kind := t.Name + ":decoded-value-roundtrip"
		rn.note(kind, len(b), label)
		r.ViolationMin(kind, len(b), t.Name+" roundtrip-of-decoded-value "+label,
			fmt.Sprintf("%s: value decoded from a %d-byte input (%s) does not survive its own Marshal/Unmarshal (error %v)", t.Name, len(b), label, err2), rp())
	}
}

func (t *Type) equal(a, b Codec) bool {
	if t.Equal != nil {
		return t.Equal(a, b)
	}
	return LooseEqual(a, b)
}

// LooseEqual is reflect.DeepEqual except that nil and empty slices / maps are the same
// value (a byte string or list that was encoded empty comes back as nil).
func LooseEqual(a, b any) bool {
	return looseEq(reflect.ValueOf(a), reflect.ValueOf(b), 0)
}

func looseEq(a, b reflect.Value, depth int) bool {
	if !a.IsValid() || !b.IsValid() {
		return a.IsValid() == b.IsValid()
	}
	if a.Type() != b.Type() {
		return false
	}
	if depth > 64 {
		return true
	}
	switch a.Kind() {
	case reflect.Ptr, reflect.UnsafePointer:
		if a.IsNil() || b.IsNil() {
			return a.IsNil() == b.IsNil()
		}
		if a.Pointer() == b.Pointer() {
			return true
		}
		return looseEq(a.Elem(), b.Elem(), depth+1)
	case reflect.Interface:
		if a.IsNil() || b.IsNil() {
			return a.IsNil() == b.IsNil()
		}
		return looseEq(a.Elem(), b.Elem(), depth+1)
	case reflect.Struct:
		for i := 0; i < a.NumField(); i++ {
			if !looseEq(a.Field(i), b.Field(i), depth+1) {
				return false
			}
		}
		return true
	case reflect.Slice:
		if a.Len() != b.Len() {
			return false
		}
		fallthrough
	case reflect.Array:
		for i := 0; i < a.Len(); i++ {
			if !looseEq(a.Index(i), b.Index(i), depth+1) {
				return false
			}
		}
		return true
	case reflect.Map:
		if a.Len() != b.Len() {
			return false
		}
		for _, k := range a.MapKeys() {
			bv := b.MapIndex(k)
			if !bv.IsValid() || !looseEq(a.MapIndex(k), bv, depth+1) {
				return false
			}
		}
		return true
	case reflect.Func, reflect.Chan:
		return a.IsNil() == b.IsNil()
	case reflect.Bool:
		return a.Bool() == b.Bool()
	case reflect.Int, reflect.Int8, reflect.Int16, reflect.Int32, reflect.Int64:
		return a.Int() == b.Int()
	case reflect.Uint, reflect.Uint8, reflect.Uint16, reflect.Uint32, reflect.Uint64, reflect.Uintptr:
		return a.Uint() == b.Uint()
	case reflect.Float32, reflect.Float64:
		return a.Float() == b.Float()
	case reflect.Complex64, reflect.Complex128:
		return a.Complex() == b.Complex()
	case reflect.String:
		return a.String() == b.String()
	}
	return false
}

// roundtrip checks one constructed value and returns its encoding (nil if unusable).
func (rn *runner) roundtrip(t *Type, val Value) []byte {
	r := rn.r
	r.Eval(1)
	var enc []byte
	var err error
	rp := Replay{Type: t.Name, Check: "roundtrip", Value: val.Name}
	fp := t.Name + " roundtrip value=" + val.Name
	p, stack := vrep.Guard(func() { enc, err = val.V.Marshal() })
	if p != nil {
		r.ViolationMin(t.Name+":marshal-panic@"+site(stack), 0, fp, fmt.Sprintf("%s.Marshal panicked on constructed value %s: %v", t.Name, val.Name, p), rp)
		return nil
	}
	if err != nil {
		r.Outcome(t.Name + ":marshal-refused")
		return nil
	}
	r.Distinct(t.Name + "|value|" + val.Name)
	u := t.New()
	p, stack = vrep.Guard(func() { err = u.Unmarshal(enc) })
	if p != nil {
		r.ViolationMin(t.Name+":unmarshal-panic@"+site(stack), len(enc), fp, fmt.Sprintf("%s.Unmarshal panicked on the encoding of constructed value %s: %v", t.Name, val.Name, p), rp)
		return nil
	}
	if err != nil {
		r.ViolationMin(t.Name+":roundtrip", len(enc), fp, fmt.Sprintf("%s: encoding of constructed value %s is rejected by Unmarshal: %v", t.Name, val.Name, err), rp)
		return nil
	}
	if !t.equal(val.V, u) {
		r.ViolationMin(t.Name+":roundtrip", len(enc), fp, fmt.Sprintf("%s: constructed value %s does not round-trip: got %+v want %+v", t.Name, val.Name, u, val.V), rp)
	}
	r.Outcome(t.Name + ":roundtrip")
	return enc
}

// Run executes the whole C19 enumeration for the registered types of one package.
func Run(r *vrep.R, types []Type) {
	rn := &runner{r: r, sites: map[string]string{}, sizes: map[string]int{}}
	byName := map[string]*Type{}
	for i := range types {
		byName[types[i].Name] = &types[i]
	}
	if rd := r.ReplayData(); rd != nil {
		var rp Replay
		if json.Unmarshal(rd, &rp) != nil {
			return
		}
		t := byName[rp.Type]
		if t == nil {
			return
		}
		if rp.Check == "roundtrip" {
			for _, v := range t.Values {
				if v.Name == rp.Value {
					rn.roundtrip(t, v)
				}
			}
			return
		}
		if rp.Hex != "" || rp.Label == "bytes <empty>" {
			b, _ := hex.DecodeString(rp.Hex)
			rn.decode(t, rp.Label, b)
			return
		}
		// large input: regenerate from its label
		for _, in := range allInputs(rn, t, true) {
			if in.label == rp.Label {
				rn.decode(t, in.label, in.bytes())
			}
		}
		return
	}
	for i := range types {
		t := &types[i]
		ins := allInputs(rn, t, r.Thorough())
		if i == 0 {
			// written-out cases: the first base, one deletion, one substitution
			shown := 0
			for _, in := range ins {
				if shown < 4 && (strings.HasSuffix(in.label, " unchanged") || strings.Contains(in.label, " delete ") || strings.Contains(in.label, "=4294967296") || strings.Contains(in.label, " prefix 3/")) {
					b := in.bytes()
					if len(b) <= 256 && !(shown > 0 && strings.HasSuffix(in.label, " unchanged")) {
						r.Sample(map[string]any{"type": t.Name, "input": in.label, "hex": hex.EncodeToString(b)})
						shown++
					}
				}
			}
		}
		r.Add("inputs."+t.Name, int64(len(ins))+65536)
		vrep.Parallel(vrep.Workers(), len(ins), func(k int) {
			if r.Expired() {
				return
			}
			rn.decode(t, ins[k].label, ins[k].bytes())
		})
		// (v) two-byte strings, generated in place
		vrep.Parallel(vrep.Workers(), 256, func(a int) {
			if r.Expired() {
				return
			}
			for b := 0; b < 256; b++ {
				rn.decode(t, fmt.Sprintf("bytes %02x%02x", a, b), []byte{byte(a), byte(b)})
			}
		})
	}
	if r.Thorough() {
		// thorough: all 3-byte strings that start with the tag of field 1..5 as varint
		// or length-delimited (the only first bytes after which a decoder can get
		// anywhere within three bytes)
		firsts := []byte{0x08, 0x0a, 0x10, 0x12, 0x18, 0x1a, 0x20, 0x22, 0x28, 0x2a}
		for i := range types {
			t := &types[i]
			vrep.Parallel(vrep.Workers(), len(firsts)*256, func(k int) {
				if r.Expired() {
					return
				}
				f, a := firsts[k/256], byte(k%256)
				for b := 0; b < 256; b++ {
					rn.decode(t, fmt.Sprintf("bytes %02x%02x%02x", f, a, b), []byte{f, a, byte(b)})
				}
			})
		}
	}
	list := []string{}
	for k, d := range rn.sites {
		list = append(list, k+" <= "+d)
	}
	sort.Strings(list)
	r.Set("failing_sites", list)
	r.Set("types", len(types))
}

func allInputs(rn *runner, t *Type, thorough bool) []input {
	var ins []input
	nb := 0
	for _, val := range t.Values {
		enc := rn.roundtrip(t, val)
		if enc == nil {
			continue
		}
		maxBases := t.MaxBases
		if thorough {
			maxBases *= 4
		}
		if maxBases > 0 && nb >= maxBases {
			continue
		}
		nb++
		// deterministic base: canonical order of map entries
		if nodes, ok := Parse(enc, 6); ok {
			canonical(nodes)
			var all []*Node
			next := 0
			number(nodes, &next, &all)
			enc = encodeNodes(nodes, nil)
		}
		ins = append(ins, mutations(base{val.Name, enc}, t.Desc, thorough)...)
	}
	ins = append(ins, shortStrings()...)
	return ins
}
