//go:build verif

package dkg

import (
	"bytes"
	"fmt"
	"math/big"
	"testing"
	"time"

	"github.com/bnb-chain/tss-lib/crypto/paillier"
	"github.com/bnb-chain/tss-lib/ecdsa/keygen"

	"github.com/keep-network/keep-core/pkg/crypto/ephemeral"
	"github.com/keep-network/keep-core/pkg/protocol/group"
	"github.com/keep-network/keep-core/pkg/tecdsa/dkg/gen/pb"
	"github.com/keep-network/keep-core/pkg/verifshim/c19"
	"github.com/keep-network/keep-core/pkg/verifshim/vrep"
)

func c19Pub(k byte) *ephemeral.PublicKey {
	priv := ephemeral.UnmarshalPrivateKey([]byte{k})
	return (*ephemeral.PublicKey)(&priv.PublicKey)
}

func c19PreParams(v int64, ts time.Time) *PreParams {
	b := func(x int64) *big.Int { return big.NewInt(x) }
	return &PreParams{
		data: &keygen.LocalPreParams{
			PaillierSK: &paillier.PrivateKey{PublicKey: paillier.PublicKey{N: b(v + 15)}, LambdaN: b(v + 4), PhiN: b(v + 8)},
			NTildei:    b(v + 21), H1i: b(v + 2), H2i: b(v + 3), Alpha: b(v + 5), Beta: b(v + 6), P: b(v + 7), Q: b(v + 11),
		},
		creationTimestamp: ts,
	}
}

func TestVerifC19TecdsaDkg(t *testing.T) {
	r := vrep.Start(t, "C19", "tecdsa-dkg")
	defer r.Finish()
	ids := []group.MemberIndex{0, 1, 2, 255}
	payloads := [][]byte{nil, {0x01}, bytes.Repeat([]byte{0xab}, 300)}
	sessions := []string{"", "session-1"}
	peers := []map[group.MemberIndex][]byte{
		{},
		{1: {0x01, 0x02}},
		{2: {0x03}, 255: bytes.Repeat([]byte{0xcd}, 40), 0: {}},
	}

	var eph, r1, r2, r3, fin, res, pre []c19.Value
	eph = append(eph,
		c19.Value{Name: "typical", V: &ephemeralPublicKeyMessage{senderID: 38, ephemeralPublicKeys: map[group.MemberIndex]*ephemeral.PublicKey{211: c19Pub(1), 19: c19Pub(2)}, sessionID: "session-1"}},
		c19.Value{Name: "one-key/max-index", V: &ephemeralPublicKeyMessage{senderID: 255, ephemeralPublicKeys: map[group.MemberIndex]*ephemeral.PublicKey{255: c19Pub(3)}, sessionID: ""}},
		c19.Value{Name: "no-keys", V: &ephemeralPublicKeyMessage{senderID: 0, ephemeralPublicKeys: map[group.MemberIndex]*ephemeral.PublicKey{}, sessionID: "s"}},
	)
	r1 = append(r1, c19.Value{Name: "typical", V: &tssRoundOneMessage{senderID: 2, broadcastPayload: []byte{1, 2, 3, 4, 5}, sessionID: "session-1"}})
	r3 = append(r3, c19.Value{Name: "typical", V: &tssRoundThreeMessage{senderID: 2, broadcastPayload: []byte{1, 2, 3, 4, 5}, sessionID: "session-1"}})
	r2 = append(r2, c19.Value{Name: "typical", V: &tssRoundTwoMessage{senderID: 2, broadcastPayload: []byte{1, 2, 3}, peersPayload: map[group.MemberIndex][]byte{1: {6, 7}, 3: {8, 9}}, sessionID: "session-1"}})
	fin = append(fin, c19.Value{Name: "typical", V: &tssFinalizationMessage{senderID: 2, sessionID: "session-1"}})
	for _, id := range ids {
		for si, s := range sessions {
			fin = append(fin, c19.Value{Name: fmt.Sprintf("sender=%d/session#%d", id, si), V: &tssFinalizationMessage{senderID: id, sessionID: s}})
			for pi, p := range payloads {
				n := fmt.Sprintf("sender=%d/payload#%d/session#%d", id, pi, si)
				r1 = append(r1, c19.Value{Name: n, V: &tssRoundOneMessage{senderID: id, broadcastPayload: p, sessionID: s}})
				r3 = append(r3, c19.Value{Name: n, V: &tssRoundThreeMessage{senderID: id, broadcastPayload: p, sessionID: s}})
				for qi, q := range peers {
					r2 = append(r2, c19.Value{Name: fmt.Sprintf("%s/peers#%d", n, qi), V: &tssRoundTwoMessage{senderID: id, broadcastPayload: p, peersPayload: q, sessionID: s}})
				}
			}
		}
	}
	var h ResultSignatureHash
	for i := range h {
		h[i] = byte(0xf0 + i)
	}
	res = append(res, c19.Value{Name: "typical", V: &resultSignatureMessage{senderID: 2, resultHash: h, signature: []byte("signature"), publicKey: []byte("pubkey"), sessionID: "session-1"}})
	for _, id := range ids {
		for pi, p := range payloads {
			res = append(res, c19.Value{Name: fmt.Sprintf("sender=%d/bytes#%d", id, pi), V: &resultSignatureMessage{senderID: id, resultHash: ResultSignatureHash{}, signature: p, publicKey: p, sessionID: sessions[pi%2]}})
		}
	}
	pre = append(pre,
		c19.Value{Name: "typical", V: c19PreParams(100, time.Unix(1700000000, 123456789).UTC())},
		c19.Value{Name: "zeros/epoch", V: c19PreParams(0, time.Unix(0, 0).UTC())},
		c19.Value{Name: "before-epoch", V: c19PreParams(7, time.Unix(-5, 999999999).UTC())},
	)

	c19.Run(r, []c19.Type{
		{Name: "tecdsa/dkg.ephemeralPublicKeyMessage", New: func() c19.Codec { return &ephemeralPublicKeyMessage{} }, Values: eph, Desc: (&pb.EphemeralPublicKeyMessage{}).ProtoReflect().Descriptor()},
		{Name: "tecdsa/dkg.tssRoundOneMessage", New: func() c19.Codec { return &tssRoundOneMessage{} }, Values: r1, Desc: (&pb.TSSRoundOneMessage{}).ProtoReflect().Descriptor(), MaxBases: 3},
		{Name: "tecdsa/dkg.tssRoundTwoMessage", New: func() c19.Codec { return &tssRoundTwoMessage{} }, Values: r2, Desc: (&pb.TSSRoundTwoMessage{}).ProtoReflect().Descriptor(), MaxBases: 3},
		{Name: "tecdsa/dkg.tssRoundThreeMessage", New: func() c19.Codec { return &tssRoundThreeMessage{} }, Values: r3, Desc: (&pb.TSSRoundThreeMessage{}).ProtoReflect().Descriptor(), MaxBases: 3},
		{Name: "tecdsa/dkg.tssFinalizationMessage", New: func() c19.Codec { return &tssFinalizationMessage{} }, Values: fin, Desc: (&pb.TSSFinalizationMessage{}).ProtoReflect().Descriptor(), MaxBases: 3},
		{Name: "tecdsa/dkg.resultSignatureMessage", New: func() c19.Codec { return &resultSignatureMessage{} }, Values: res, Desc: (&pb.ResultSignatureMessage{}).ProtoReflect().Descriptor(), MaxBases: 3},
		{Name: "tecdsa/dkg.PreParams", New: func() c19.Codec { return &PreParams{} }, Values: pre, Desc: (&pb.PreParams{}).ProtoReflect().Descriptor()},
	})
}
