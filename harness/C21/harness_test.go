//go:build verif

package firewall

import (
	"container/list"
	"encoding/json"
	"errors"
	"fmt"
	"math/big"
	"reflect"
	"sort"
	"strings"
	"testing"
	"time"
	"unsafe"

	"github.com/keep-network/keep-core/pkg/chain/local_v1"
	"github.com/keep-network/keep-core/pkg/operator"
	"github.com/keep-network/keep-core/pkg/verifshim/vrep"
	"github.com/keep-network/keep-core/pkg/verifshim/vtime"
)

// ---- alphabet ---------------------------------------------------------------------

const (
	c21Yes = 0
	c21No  = 1
	c21Err = 2
)

var c21AnsName = [3]string{"yes", "no", "err"}

// c21Op is one operation of a history: advance the clock, set what the two applications
// answer for the validated peer from now on, validate that peer.
type c21Op struct {
	AdvNs int64  `json:"adv_ns"`
	Ans   [2]int `json:"ans"`
	Peer  int    `json:"peer"`
}

func (o c21Op) String() string {
	return fmt.Sprintf("+%s apps=[%s,%s] validate(%c)", time.Duration(o.AdvNs), c21AnsName[o.Ans[0]], c21AnsName[o.Ans[1]], 'P'+rune(o.Peer))
}

type c21Replay struct {
	Allow int     `json:"allowlisted_P"` // 1: allowlist = {P}
	Hist  []c21Op `json:"history"`
}

func c21HistString(allow int, h []c21Op) string {
	parts := make([]string, 0, len(h)+1)
	parts = append(parts, fmt.Sprintf("allowlist=%s", map[int]string{0: "{}", 1: "{P}"}[allow]))
	for _, o := range h {
		parts = append(parts, o.String())
	}
	return strings.Join(parts, "; ")
}

// c21PeerKeys are the two fixed remote peers (immutable inputs, computed once; every
// Validate call gets a fresh copy of the key).
var c21PeerKeys = func() (out [2]*operator.PublicKey) {
	// Q is the negation of P: a different operator key with the same X coordinate, so that
	// any bookkeeping keyed by less than the whole key makes the two peers collide
	x, y := local_v1.DefaultCurve.ScalarBaseMult(big.NewInt(7).Bytes())
	out[0] = &operator.PublicKey{Curve: operator.Secp256k1, X: x, Y: y}
	ny := new(big.Int).Sub(local_v1.DefaultCurve.Params().P, y)
	out[1] = &operator.PublicKey{Curve: operator.Secp256k1, X: new(big.Int).Set(x), Y: ny}
	return out
}()

func c21Peers() [2]*operator.PublicKey { return c21PeerKeys }

// ---- fake applications --------------------------------------------------------------

var c21ErrApp = errors.New("c21: application failure")

type c21Call struct {
	app  int
	peer string // hex key the policy asked about
	ans  int
}

type c21World struct {
	ans   [2]int
	calls []c21Call
}

type c21App struct {
	idx int
	w   *c21World
}

func (a *c21App) IsRecognized(pk *operator.PublicKey) (bool, error) {
	ans := a.w.ans[a.idx]
	a.w.calls = append(a.w.calls, c21Call{a.idx, pk.String(), ans})
	switch ans {
	case c21Yes:
		return true, nil
	case c21No:
		return false, nil
	}
	return false, c21ErrApp
}

// ---- white-box view of the two caches (state key only; the oracle never uses it) -----

// c21DumpCache renders the entries of a (recompiled keep-common) TimeCache in indexer
// order with their age; reads the unexported fields through reflect/unsafe.
func c21DumpCache(tc any, now time.Time, names map[string]string) string {
	v := reflect.ValueOf(tc).Elem()
	field := func(n string) reflect.Value {
		f := v.FieldByName(n)
		return reflect.NewAt(f.Type(), unsafe.Pointer(f.UnsafeAddr())).Elem()
	}
	m := field("cache").Interface().(map[string]time.Time)
	l := field("indexer").Interface().(*list.List)
	var parts []string
	inList := 0
	for e := l.Front(); e != nil; e = e.Next() {
		k := e.Value.(string)
		inList++
		ts, ok := m[k]
		if !ok {
			parts = append(parts, names[k]+"@orphan")
			continue
		}
		parts = append(parts, fmt.Sprintf("%s@%d", names[k], int64(now.Sub(ts))))
	}
	if inList != len(m) {
		parts = append(parts, fmt.Sprintf("map=%d/list=%d", len(m), inList))
	}
	return "[" + strings.Join(parts, ",") + "]"
}

// ---- oracle (the property statement, permissive) ---------------------------------------

type c21Answer struct {
	at       time.Duration
	positive bool
}

type c21Oracle struct {
	answers [2][]c21Answer // per peer: recognition answers the policy really obtained
}

// step judges one validation. It returns "" when the verdict is justified by the
// statement, else the reason; class names the justification for outcome statistics.
func (o *c21Oracle) step(now time.Duration, peer int, peerHex string, allowlisted bool, admitted bool, calls []c21Call) (problem, class string) {
	sawYes, sawErr := false, false
	asked := [2]bool{}
	allNo := true
	for _, c := range calls {
		if c.peer != peerHex {
			continue // a question about another peer says nothing about this one
		}
		asked[c.app] = true
		switch c.ans {
		case c21Yes:
			sawYes = true
			allNo = false
		case c21Err:
			sawErr = true
			allNo = false
		}
	}
	allNo = allNo && asked[0] && asked[1]
	// usable earlier answers
	reusePos, reuseNeg := false, false
	for _, a := range o.answers[peer] {
		age := now - a.at
		if a.positive && age <= PositiveIsRecognizedCachePeriod {
			reusePos = true
		}
		if !a.positive && age <= NegativeIsRecognizedCachePeriod {
			reuseNeg = true
		}
	}
	// record what this validation learned (after computing reuse: an answer obtained
	// now is a fresh justification, not a reuse)
	defer func() {
		if sawYes {
			o.answers[peer] = append(o.answers[peer], c21Answer{now, true})
		} else if allNo {
			o.answers[peer] = append(o.answers[peer], c21Answer{now, false})
		}
	}()
	if allowlisted {
		if !admitted {
			return "allowlisted peer was rejected", ""
		}
		return "", "admit:allowlisted"
	}
	if admitted {
		switch {
		case sawYes:
			return "", "admit:recognized-now"
		case reusePos:
			return "", "admit:reused-positive"
		case sawErr:
			return "peer admitted although the recognition check failed and no application answered yes (no positive answer within 12h either)", ""
		case len(calls) == 0:
			return "peer admitted without asking any application and without a positive answer obtained within the last 12h", ""
		default:
			return "peer admitted although no application recognized it (no positive answer within 12h either)", ""
		}
	}
	switch {
	case sawErr && !sawYes:
		return "", "reject:check-failed"
	case sawErr && sawYes:
		// the order of evaluation is the implementation's choice, but once the policy has
		// obtained a yes in this validation the peer is recognized by an application:
		// a check that fails afterwards cannot take that back
		return "peer rejected although an application answered yes in this very validation (another application's check failed besides)", ""
	case allNo:
		return "", "reject:unrecognized-now"
	case reuseNeg:
		return "", "reject:reused-negative"
	case sawYes:
		return "peer rejected although an application recognized it in this very validation and no negative answer from the last hour exists", ""
	case len(calls) == 0:
		return "peer rejected without asking the applications although no negative answer was obtained within the last hour (a failed check or an expired answer was remembered as a rejection)", ""
	default:
		return "peer rejected although not every application was asked (one that was not asked might recognize it) and no negative answer from the last hour exists", ""
	}
}

func (o *c21Oracle) key(now time.Duration) string {
	var parts []string
	for p := range o.answers {
		for _, a := range o.answers[p] {
			age := now - a.at
			if a.positive && age <= PositiveIsRecognizedCachePeriod || !a.positive && age <= NegativeIsRecognizedCachePeriod {
				parts = append(parts, fmt.Sprintf("%d%v@%d", p, a.positive, int64(age)))
			}
		}
	}
	sort.Strings(parts)
	return strings.Join(parts, ",")
}

// ---- one execution: replay a history on fresh objects -------------------------------------

type c21Result struct {
	stateKey  string
	problem   string // of the LAST operation
	class     string
	panicked  any
	stack     string
	nontrivia bool
}

func c21Run(allow int, hist []c21Op) (res c21Result) {
	peers := c21Peers()
	names := map[string]string{peers[0].String(): "P", peers[1].String(): "Q"}
	w := &c21World{}
	allowList := EmptyAllowList
	if allow == 1 {
		allowList = NewAllowList([]*operator.PublicKey{peers[0]})
	}
	vtime.SetOffset(0)
	defer vtime.SetOffset(0)
	policy := AnyApplicationPolicy([]Application{&c21App{0, w}, &c21App{1, w}}, allowList)
	orc := &c21Oracle{}
	var now time.Duration
	for i, op := range hist {
		now += time.Duration(op.AdvNs)
		vtime.SetOffset(now)
		w.ans = op.Ans
		w.calls = nil
		// the key is rebuilt for every call, as a connection handshake would do
		pk := &operator.PublicKey{Curve: operator.Secp256k1, X: new(big.Int).Set(peers[op.Peer].X), Y: new(big.Int).Set(peers[op.Peer].Y)}
		var err error
		p, stack := vrep.Guard(func() { err = policy.Validate(pk) })
		if p != nil {
			res.panicked, res.stack = p, stack
			return res
		}
		allowlisted := allow == 1 && op.Peer == 0
		problem, class := orc.step(now, op.Peer, peers[op.Peer].String(), allowlisted, err == nil, w.calls)
		if i == len(hist)-1 {
			res.problem, res.class, res.nontrivia = problem, class, !allowlisted
		} else if problem != "" {
			// an earlier step of a history we extended was already violating: the
			// search never extends violating histories, so this is a harness bug
			panic("c21: extended a violating history: " + problem)
		}
	}
	aap := policy.(*anyApplicationPolicy)
	at := vtime.Epoch.Add(now)
	res.stateKey = "pos" + c21DumpCache(aap.positiveResultCache, at, names) + " neg" + c21DumpCache(aap.negativeResultCache, at, names) + " orc{" + orc.key(now) + "}"
	return res
}

func TestVerifC21(t *testing.T) {
	r := vrep.Start(t, "C21", "fw")
	defer r.Finish()

	report := func(allow int, hist []c21Op, res c21Result) {
		fp := c21HistString(allow, hist)
		rp := c21Replay{allow, hist}
		if res.panicked != nil {
			r.ViolationMin("panic", len(hist), fp, fmt.Sprintf("Validate panicked: %v\n%s", res.panicked, res.stack), rp)
			return
		}
		kind := res.problem
		if i := strings.IndexByte(kind, '('); i > 0 {
			kind = kind[:i]
		}
		r.ViolationMin(strings.TrimSpace(kind), len(hist), fp, res.problem+" — history: "+fp, rp)
	}

	if rd := r.ReplayData(); rd != nil {
		var rp c21Replay
		if json.Unmarshal(rd, &rp) == nil && len(rp.Hist) > 0 {
			res := c21Run(rp.Allow, rp.Hist)
			r.Eval(1)
			if res.panicked != nil || res.problem != "" {
				report(rp.Allow, rp.Hist, res)
			}
		}
		return
	}

	m, h := time.Minute, time.Hour
	advances := []time.Duration{0, 59 * m, 61 * m, 11*h + 59*m, 12*h + 1*m}
	maxDepth := 7
	if r.Thorough() {
		advances = []time.Duration{0, 1, 59 * m, 1 * h, 1*h + 1, 61 * m, 11*h + 59*m, 12 * h, 12*h + 1, 12*h + 1*m}
		maxDepth = 8
	}
	var ops []c21Op
	for _, adv := range advances {
		for a0 := 0; a0 < 3; a0++ {
			for a1 := 0; a1 < 3; a1++ {
				for p := 0; p < 2; p++ {
					ops = append(ops, c21Op{int64(adv), [2]int{a0, a1}, p})
				}
			}
		}
	}
	r.Set("operations_per_state", len(ops))
	r.Set("history_bound", maxDepth)

	// determinism gate: the same history twice gives the same state and verdict
	{
		hist := []c21Op{ops[3], ops[len(ops)/2], ops[len(ops)-1]}
		a, b := c21Run(0, hist), c21Run(0, hist)
		if a.stateKey != b.stateKey || a.problem != b.problem || a.class != b.class {
			t.Fatalf("NONDETERMINISM: %+v vs %+v", a, b)
		}
		r.ReplayedTwice(1)
		r.Sample(map[string]any{"history": c21HistString(0, hist), "state": a.stateKey, "verdict": a.class})
	}

	for allow := 0; allow < 2; allow++ {
		frontier := [][]c21Op{nil}
		r.State(fmt.Sprintf("allow=%d pos[] neg[] orc{}", allow))
		for depth := 1; depth <= maxDepth && len(frontier) > 0; depth++ {
			var next [][]c21Op
			for _, hist := range frontier {
				if r.Expired() {
					return
				}
				srcKey := c21Run(allow, hist).stateKey
				for _, op := range ops {
					ext := append(append(make([]c21Op, 0, len(hist)+1), hist...), op)
					res := c21Run(allow, ext)
					r.Eval(1)
					r.Transition(1)
					if res.panicked != nil || res.problem != "" {
						report(allow, ext, res)
						continue
					}
					r.Outcome(res.class)
					if res.nontrivia {
						// distinct = (source state, operation); the source state of this
						// history is identified by the history's own canonical replay
						r.Distinct(fmt.Sprintf("%d|%s|%v", allow, srcKey, op))
					}
					if r.State(fmt.Sprintf("allow=%d %s", allow, res.stateKey)) {
						next = append(next, ext)
						if depth <= 2 {
							r.Sample(map[string]any{"history": c21HistString(allow, ext), "state": res.stateKey, "verdict": res.class})
						}
					}
				}
			}
			r.Set(fmt.Sprintf("allow%d.new_states_depth%d", allow, depth), len(next))
			frontier = next
		}
	}
}
