//go:build verif

package tbtcpg

// C30, unit "pg": the fee estimate helpers of pkg/tbtcpg are called with a fake chain that
// reports a fixed sat/vbyte rate; the fee they return must be at least rate x virtual size
// of the real transaction of the shape the helper documents, built with the public
// bitcoin.TransactionBuilder and signed with maximal-length (72-byte) signatures.

import (
	"bytes"
	"crypto/ecdsa"
	"crypto/sha256"
	"encoding/json"
	"fmt"
	"math/big"
	"sync"
	"testing"

	"github.com/btcsuite/btcd/btcec"
	"github.com/btcsuite/btcutil"

	"github.com/keep-network/keep-core/pkg/bitcoin"
	"github.com/keep-network/keep-core/pkg/verifshim/vrep"
)

type c30pChain struct {
	bitcoin.Chain
	txs  map[bitcoin.Hash]*bitcoin.Transaction
	rate int64
}

func (c *c30pChain) GetTransaction(h bitcoin.Hash) (*bitcoin.Transaction, error) {
	if tx, ok := c.txs[h]; ok {
		return tx, nil
	}
	return nil, fmt.Errorf("transaction not found")
}

func (c *c30pChain) EstimateSatPerVByteFee(blocks uint32) (int64, error) { return c.rate, nil }

var c30pCurve = btcec.S256()

func c30pKey() *ecdsa.PrivateKey {
	seed := sha256.Sum256([]byte("verif-c30p-key"))
	d := new(big.Int).SetBytes(seed[:])
	d.Mod(d, new(big.Int).Sub(c30pCurve.N, big.NewInt(1)))
	d.Add(d, big.NewInt(1))
	x, y := c30pCurve.ScalarBaseMult(d.Bytes())
	return &ecdsa.PrivateKey{PublicKey: ecdsa.PublicKey{Curve: c30pCurve, X: x, Y: y}, D: d}
}

func c30pDerLen(x *big.Int) int {
	b := x.Bytes()
	if len(b) == 0 {
		return 1
	}
	if b[0]&0x80 != 0 {
		return len(b) + 1
	}
	return len(b)
}

type c30pNonce struct{ kInv, r *big.Int }

var c30pNonces struct {
	once sync.Once
	r33  []c30pNonce
}

// c30pSignMax: signature with a 33-byte r and a 32-byte low-S s (72 bytes serialized with
// the sighash type), the longest AddSignatures can emit.
func c30pSignMax(priv *ecdsa.PrivateKey, digest *big.Int) (r, s *big.Int) {
	N := c30pCurve.N
	c30pNonces.once.Do(func() {
		for i := int64(1); len(c30pNonces.r33) < 24; i++ {
			k := big.NewInt(i)
			x, _ := c30pCurve.ScalarBaseMult(k.Bytes())
			rr := new(big.Int).Mod(x, N)
			if c30pDerLen(rr) == 33 {
				c30pNonces.r33 = append(c30pNonces.r33, c30pNonce{new(big.Int).ModInverse(k, N), rr})
			}
		}
	})
	half := new(big.Int).Rsh(N, 1)
	z := new(big.Int).Mod(digest, N)
	for _, n := range c30pNonces.r33 {
		s = new(big.Int).Mul(n.r, priv.D)
		s.Add(s, z)
		s.Mul(s, n.kInv)
		s.Mod(s, N)
		if s.Cmp(half) > 0 {
			s.Sub(N, s)
		}
		if s.Sign() != 0 && c30pDerLen(s) == 32 {
			return n.r, s
		}
	}
	panic("c30p: no maximal signature found")
}

func c30pDepositScript(walletPKH []byte, extra bool, salt byte) []byte {
	var b []byte
	b = append(b, 0x14)
	b = append(b, bytes.Repeat([]byte{0xd0 + salt}, 20)...)
	b = append(b, 0x75)
	if extra {
		b = append(b, 0x20)
		b = append(b, bytes.Repeat([]byte{0xe0 + salt}, 32)...)
		b = append(b, 0x75)
	}
	b = append(b, 0x08)
	b = append(b, bytes.Repeat([]byte{0xb0 + salt}, 8)...)
	b = append(b, 0x75, 0x76, 0xa9, 0x14)
	b = append(b, walletPKH...)
	b = append(b, 0x87, 0x63, 0xac, 0x67, 0x76, 0xa9, 0x14)
	b = append(b, bytes.Repeat([]byte{0xc0 + salt}, 20)...)
	b = append(b, 0x88, 0x04, 0x30, 0x5a, 0x4e, 0x65, 0xb1, 0x75, 0xac, 0x68)
	return b
}

// input kinds of the real transaction
const (
	c30pP2WPKH = iota
	c30pP2PKH
	c30pP2WSH126
	c30pP2WSH92
	c30pP2SH126
	c30pP2SH92
)

func c30pOutScript(kind, i int) []byte {
	h := bytes.Repeat([]byte{0x40 + byte(i)}, 20)
	switch kind {
	case 0:
		return append(append([]byte{0x76, 0xa9, 0x14}, h...), 0x88, 0xac)
	case 1:
		return append([]byte{0x00, 0x14}, h...)
	case 2:
		return append(append([]byte{0xa9, 0x14}, h...), 0x87)
	default:
		return append([]byte{0x00, 0x20}, bytes.Repeat([]byte{0x50 + byte(i)}, 32)...)
	}
}

// c30pReal builds the signed transaction with the given input kinds and output scripts
// and returns its virtual size.
func c30pReal(ins []int, outs [][]byte) (int64, error) {
	priv := c30pKey()
	pkh := btcutil.Hash160((*btcec.PublicKey)(&priv.PublicKey).SerializeCompressed())
	chain := &c30pChain{txs: map[bitcoin.Hash]*bitcoin.Transaction{}}
	builder := bitcoin.NewTransactionBuilder(chain)
	for i, kind := range ins {
		var pk, redeem []byte
		switch kind {
		case c30pP2WPKH:
			pk = append([]byte{0x00, 0x14}, pkh...)
		case c30pP2PKH:
			pk = append(append([]byte{0x76, 0xa9, 0x14}, pkh...), 0x88, 0xac)
		case c30pP2WSH126, c30pP2WSH92:
			redeem = c30pDepositScript(pkh, kind == c30pP2WSH126, byte(i))
			h := sha256.Sum256(redeem)
			pk = append([]byte{0x00, 0x20}, h[:]...)
		case c30pP2SH126, c30pP2SH92:
			redeem = c30pDepositScript(pkh, kind == c30pP2SH126, byte(i))
			pk = append(append([]byte{0xa9, 0x14}, btcutil.Hash160(redeem)...), 0x87)
		}
		funding := &bitcoin.Transaction{
			Version: 1,
			Inputs: []*bitcoin.TransactionInput{{
				Outpoint:        &bitcoin.TransactionOutpoint{TransactionHash: bitcoin.Hash{0xc3, 0x0b, byte(i)}, OutputIndex: 0},
				SignatureScript: []byte{0x51},
				Sequence:        0xffffffff,
			}},
			Outputs:  []*bitcoin.TransactionOutput{{Value: 5000000, PublicKeyScript: pk}},
			Locktime: uint32(i),
		}
		chain.txs[funding.Hash()] = funding
		utxo := &bitcoin.UnspentTransactionOutput{Outpoint: &bitcoin.TransactionOutpoint{TransactionHash: funding.Hash(), OutputIndex: 0}, Value: 5000000}
		var err error
		if redeem != nil {
			err = builder.AddScriptHashInput(utxo, redeem)
		} else {
			err = builder.AddPublicKeyHashInput(utxo)
		}
		if err != nil {
			return 0, err
		}
	}
	for _, o := range outs {
		builder.AddOutput(&bitcoin.TransactionOutput{Value: 100000, PublicKeyScript: o})
	}
	hashes, err := builder.ComputeSignatureHashes()
	if err != nil {
		return 0, err
	}
	sigs := make([]*bitcoin.SignatureContainer, len(hashes))
	for i, h := range hashes {
		r, s := c30pSignMax(priv, h)
		sigs[i] = &bitcoin.SignatureContainer{R: r, S: s, PublicKey: &priv.PublicKey}
	}
	tx, err := builder.AddSignatures(sigs)
	if err != nil {
		return 0, err
	}
	for i, in := range tx.Inputs {
		l := 0
		if len(in.Witness) > 0 {
			l = len(in.Witness[0])
		} else if len(in.SignatureScript) > 0 {
			l = int(in.SignatureScript[0])
		}
		if l != 72 {
			return 0, fmt.Errorf("harness: input %d carries a %d-byte signature, not the maximal 72", i, l)
		}
	}
	stripped := int64(len(tx.Serialize(bitcoin.Standard)))
	total := int64(len(tx.Serialize(bitcoin.Witness)))
	return (stripped*3 + total + 3) / 4, nil
}

type c30pCase struct {
	Helper  string `json:"helper"` // sweep | redemption | moving | movedsweep
	N       int    `json:"n,omitempty"`
	Scripts []int  `json:"scripts,omitempty"`  // redemption: redeemer script kinds
	HasMain bool   `json:"has_main,omitempty"` // moved funds sweep
	Rate    int64  `json:"rate"`
	Variant string `json:"variant,omitempty"` // "" = the documented shape; others are information only
}

func (c c30pCase) String() string {
	return fmt.Sprintf("%s n=%d scripts=%v main=%v rate=%d variant=%s", c.Helper, c.N, c.Scripts, c.HasMain, c.Rate, c.Variant)
}

func c30pRun(r *vrep.R, c c30pCase) {
	fp := c.String()
	size := c.N*10 + len(c.Scripts)*10 + int(c.Rate%10)
	report := func(kind, what string) { r.ViolationMin(kind, size, fp, what, c) }
	chain := &c30pChain{rate: c.Rate}
	wallet := []byte{0x00, 0x14, 9, 9, 9, 9, 9, 9, 9, 9, 9, 9, 9, 9, 9, 9, 9, 9, 9, 9, 9, 9}
	var fee int64
	var err error
	var ins []int
	var outs [][]byte
	p, stack := vrep.Guard(func() {
		switch c.Helper {
		case "sweep":
			fee, _, err = estimateDepositsSweepFee(chain, c.N, 1<<40)
			// documented shape: the P2WPKH main UTXO, N P2WSH deposits (126-byte script), one P2WPKH output
			main, dep := c30pP2WPKH, c30pP2WSH126
			switch c.Variant {
			case "short-script":
				dep = c30pP2WSH92
			case "no-main":
				main = -1
			case "p2sh-deposits":
				dep = c30pP2SH126
			case "p2pkh-main":
				main = c30pP2PKH
			}
			if main >= 0 {
				ins = append(ins, main)
			}
			for i := 0; i < c.N; i++ {
				ins = append(ins, dep)
			}
			outs = [][]byte{wallet}
		case "redemption":
			var scripts []bitcoin.Script
			for i, k := range c.Scripts {
				scripts = append(scripts, c30pOutScript(k, i))
			}
			fee, err = EstimateRedemptionFee(chain, scripts)
			ins = []int{c30pP2WPKH}
			if c.Variant == "p2pkh-main" {
				ins = []int{c30pP2PKH}
			}
			if c.Variant != "no-change" {
				outs = append(outs, wallet)
			}
			for _, s := range scripts {
				outs = append(outs, s)
			}
		case "moving":
			fee, err = EstimateMovingFundsFee(chain, c.N, 1<<40)
			ins = []int{c30pP2WPKH}
			if c.Variant == "p2pkh-main" {
				ins = []int{c30pP2PKH}
			}
			for i := 0; i < c.N; i++ {
				outs = append(outs, c30pOutScript(1, i))
			}
		case "movedsweep":
			fee, err = EstimateMovedFundsSweepFee(chain, c.HasMain, 1<<40)
			ins = []int{c30pP2WPKH}
			if c.HasMain {
				ins = append(ins, c30pP2WPKH)
			}
			outs = [][]byte{wallet}
		}
	})
	if p != nil {
		report("helper-panic:"+c.Helper, fmt.Sprintf("helper panicked: %v\n%s", p, stack))
		return
	}
	if err != nil {
		report("helper-error:"+c.Helper, "helper refused a valid shape: "+err.Error())
		return
	}
	real, rerr := c30pReal(ins, outs)
	if rerr != nil {
		report("harness", "cannot build the real transaction: "+rerr.Error())
		return
	}
	need := real * c.Rate
	if c.Variant != "" && c.Variant != "short-script" && c.Variant != "no-main" && c.Variant != "no-change" {
		// shapes outside what the helper documents: recorded only
		if fee < need {
			r.Outcome(fmt.Sprintf("info:%s:%s:below-rate", c.Helper, c.Variant))
			r.Add("info."+c.Helper+"."+c.Variant+".below_rate_cases", 1)
		} else {
			r.Outcome(fmt.Sprintf("info:%s:%s:meets-rate", c.Helper, c.Variant))
		}
		return
	}
	if fee < need {
		report("fee-below-rate:"+c.Helper, fmt.Sprintf("estimated fee %d < %d sat/vbyte x real virtual size %d = %d", fee, c.Rate, real, need))
		r.Outcome(c.Helper + ":below-rate")
		return
	}
	if fee == need {
		r.Outcome(c.Helper + ":exact")
	} else {
		r.Outcome(c.Helper + ":above")
	}
}

func TestVerifC30Pg(t *testing.T) {
	r := vrep.Start(t, "C30", "pg")
	defer r.Finish()
	if rd := r.ReplayData(); rd != nil {
		var c c30pCase
		if json.Unmarshal(rd, &c) == nil && c.Helper != "" {
			c30pRun(r, c)
			r.Eval(1)
		}
		return
	}
	maxSweep, maxScripts, maxTargets := 8, 3, 6
	rates := []int64{1, 7}
	if r.Thorough() {
		maxSweep, maxScripts, maxTargets = 40, 5, 30
		rates = []int64{1, 7, 1000}
	}
	var cases []c30pCase
	for _, rate := range rates {
		for n := 1; n <= maxSweep; n++ {
			for _, v := range []string{"", "short-script", "no-main", "p2sh-deposits", "p2pkh-main"} {
				cases = append(cases, c30pCase{Helper: "sweep", N: n, Rate: rate, Variant: v})
			}
		}
		var lists [][]int
		var gen func(prefix []int)
		gen = func(prefix []int) {
			if len(prefix) > 0 {
				lists = append(lists, append([]int(nil), prefix...))
			}
			if len(prefix) == maxScripts {
				return
			}
			for k := 0; k < 4; k++ {
				gen(append(prefix, k))
			}
		}
		gen(nil)
		for _, l := range lists {
			for _, v := range []string{"", "no-change", "p2pkh-main"} {
				cases = append(cases, c30pCase{Helper: "redemption", Scripts: l, Rate: rate, Variant: v})
			}
		}
		for n := 1; n <= maxTargets; n++ {
			for _, v := range []string{"", "p2pkh-main"} {
				cases = append(cases, c30pCase{Helper: "moving", N: n, Rate: rate, Variant: v})
			}
		}
		cases = append(cases, c30pCase{Helper: "movedsweep", HasMain: false, Rate: rate}, c30pCase{Helper: "movedsweep", HasMain: true, Rate: rate})
	}
	r.Set("cases", len(cases))
	r.Sample(cases[0])
	r.Sample(cases[len(cases)/2])
	vrep.Parallel(vrep.Workers(), len(cases), func(i int) {
		if r.Expired() {
			return
		}
		c30pRun(r, cases[i])
		r.Distinct(cases[i].String())
		r.Eval(1)
	})
}
