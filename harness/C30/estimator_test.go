//go:build verif

package bitcoin

// C30, unit "estimator": for every transaction shape of the alphabet (numbers of P2PKH /
// P2WPKH wallet inputs, P2SH / P2WSH deposit inputs with the two real deposit script
// lengths, and P2PKH / P2WPKH / P2SH / P2WSH outputs) a real transaction is built with
// the TransactionBuilder and signed with signatures of chosen DER length class (nonces
// are searched so that r needs 33 bytes and the low-S s 32 bytes: the longest signature a
// wallet can produce; plus shorter classes). Its virtual size, computed in the harness from
// the two serializations (weight = 3*stripped + total), must not exceed
// TransactionSizeEstimator.VirtualSize() for the same shape.

import (
	"bytes"
	"crypto/ecdsa"
	"crypto/sha256"
	"encoding/json"
	"fmt"
	"math/big"
	"sync"
	"testing"

	"github.com/btcsuite/btcd/btcec"
	"github.com/btcsuite/btcd/mempool"
	"github.com/btcsuite/btcd/wire"
	"github.com/btcsuite/btcutil"

	"github.com/keep-network/keep-core/pkg/verifshim/vrep"
)

type c30Chain struct {
	Chain
	txs map[Hash]*Transaction
}

func (c *c30Chain) GetTransaction(h Hash) (*Transaction, error) {
	if tx, ok := c.txs[h]; ok {
		return tx, nil
	}
	return nil, fmt.Errorf("transaction not found")
}

var c30Curve = btcec.S256()

func c30Key() *ecdsa.PrivateKey {
	seed := sha256.Sum256([]byte("verif-c30-key"))
	d := new(big.Int).SetBytes(seed[:])
	d.Mod(d, new(big.Int).Sub(c30Curve.N, big.NewInt(1)))
	d.Add(d, big.NewInt(1))
	x, y := c30Curve.ScalarBaseMult(d.Bytes())
	return &ecdsa.PrivateKey{PublicKey: ecdsa.PublicKey{Curve: c30Curve, X: x, Y: y}, D: d}
}

// c30DerLen: length of the DER INTEGER content for a positive number.
func c30DerLen(x *big.Int) int {
	b := x.Bytes()
	if len(b) == 0 {
		return 1
	}
	if b[0]&0x80 != 0 {
		return len(b) + 1
	}
	return len(b)
}

type c30Nonce struct{ k, kInv, r *big.Int }

// nonce tables per r length class: r is a function of the nonce only
var c30Nonces struct {
	once     sync.Once
	r33, r32 []c30Nonce
	short    []c30Nonce
}

func c30Init() {
	c30Nonces.once.Do(func() {
		N := c30Curve.N
		mk := func(k *big.Int) c30Nonce {
			x, _ := c30Curve.ScalarBaseMult(k.Bytes())
			return c30Nonce{k, new(big.Int).ModInverse(k, N), new(big.Int).Mod(x, N)}
		}
		for i := int64(1); len(c30Nonces.r33) < 24 || len(c30Nonces.r32) < 24; i++ {
			n := mk(big.NewInt(i))
			switch c30DerLen(n.r) {
			case 33:
				c30Nonces.r33 = append(c30Nonces.r33, n)
			case 32:
				c30Nonces.r32 = append(c30Nonces.r32, n)
			}
		}
		// k = 1/2 mod N gives the well-known 166-bit r
		half := new(big.Int).Add(N, big.NewInt(1))
		half.Rsh(half, 1)
		c30Nonces.short = []c30Nonce{mk(half)}
	})
}

const (
	c30ClassMax   = iota // r 33 bytes, s 32 bytes: 72-byte signature incl. sighash type
	c30ClassR32          // r 32, s 32: 71 bytes
	c30ClassShort        // shortest r known
	c30ClassMixed        // alternating max / r32 per input
	c30Classes
)

var c30ClassName = []string{"max", "r32", "short", "mixed"}

// c30Sign signs digest so that the serialized signature has the wanted length class. The
// returned s is the high-S representative when odd is true (AddSignatures normalises).
func c30Sign(priv *ecdsa.PrivateKey, digest *big.Int, class int, highS bool) (r, s *big.Int, sigLen int) {
	c30Init()
	N := c30Curve.N
	half := new(big.Int).Rsh(N, 1)
	table := c30Nonces.r33
	switch class {
	case c30ClassR32:
		table = c30Nonces.r32
	case c30ClassShort:
		table = c30Nonces.short
	}
	z := new(big.Int).Mod(digest, N)
	for _, n := range table {
		s = new(big.Int).Mul(n.r, priv.D)
		s.Add(s, z)
		s.Mul(s, n.kInv)
		s.Mod(s, N)
		if s.Sign() == 0 {
			continue
		}
		low := new(big.Int).Set(s)
		if low.Cmp(half) > 0 {
			low.Sub(N, low)
		}
		if class != c30ClassShort && c30DerLen(low) != 32 {
			continue
		}
		out := low
		if highS {
			out = new(big.Int).Sub(N, low)
		}
		return n.r, out, 6 + c30DerLen(n.r) + c30DerLen(low) + 1
	}
	panic("c30: no nonce of the wanted class found")
}

func c30Hash160(b []byte) []byte { return btcutil.Hash160(b) }

func c30DepositScript(walletPKH []byte, extra bool, salt byte) []byte {
	var b []byte
	b = append(b, 0x14)
	b = append(b, bytes.Repeat([]byte{0xd0 + salt}, 20)...)
	b = append(b, 0x75)
	if extra {
		b = append(b, 0x20)
		b = append(b, bytes.Repeat([]byte{0xe0 + salt}, 32)...)
		b = append(b, 0x75)
	}
	b = append(b, 0x08)
	b = append(b, bytes.Repeat([]byte{0xb0 + salt}, 8)...)
	b = append(b, 0x75, 0x76, 0xa9, 0x14)
	b = append(b, walletPKH...)
	b = append(b, 0x87, 0x63, 0xac, 0x67, 0x76, 0xa9, 0x14)
	b = append(b, bytes.Repeat([]byte{0xc0 + salt}, 20)...)
	b = append(b, 0x88, 0x04, 0x30, 0x5a, 0x4e, 0x65, 0xb1, 0x75, 0xac, 0x68)
	return b
}

// input kinds
const (
	c30InP2PKH = iota
	c30InP2WPKH
	c30InP2SH92
	c30InP2SH126
	c30InP2WSH92
	c30InP2WSH126
	c30InKinds
)

// output kinds
const (
	c30OutP2PKH = iota
	c30OutP2WPKH
	c30OutP2SH
	c30OutP2WSH
	c30OutKinds
)

type c30Shape struct {
	In    [c30InKinds]int  `json:"in"`  // P2PKH, P2WPKH, P2SH(92), P2SH(126), P2WSH(92), P2WSH(126)
	Out   [c30OutKinds]int `json:"out"` // P2PKH, P2WPKH, P2SH, P2WSH
	Class int              `json:"class"`
}

func (s c30Shape) String() string {
	return fmt.Sprintf("in=%v out=%v sig=%s", s.In, s.Out, c30ClassName[s.Class])
}

func (s c30Shape) inputs() int {
	n := 0
	for _, c := range s.In {
		n += c
	}
	return n
}

func c30Estimate(s c30Shape) (int64, error) {
	return NewTransactionSizeEstimator().
		AddPublicKeyHashInputs(s.In[c30InP2PKH], false).
		AddPublicKeyHashInputs(s.In[c30InP2WPKH], true).
		AddScriptHashInputs(s.In[c30InP2SH92], 92, false).
		AddScriptHashInputs(s.In[c30InP2SH126], 126, false).
		AddScriptHashInputs(s.In[c30InP2WSH92], 92, true).
		AddScriptHashInputs(s.In[c30InP2WSH126], 126, true).
		AddPublicKeyHashOutputs(s.Out[c30OutP2PKH], false).
		AddPublicKeyHashOutputs(s.Out[c30OutP2WPKH], true).
		AddScriptHashOutputs(s.Out[c30OutP2SH], false).
		AddScriptHashOutputs(s.Out[c30OutP2WSH], true).
		VirtualSize()
}

// c30EstimateIncrementally builds the same shape on ONE estimator but reads the size
// after every step (a caller sizing a transaction while it adds inputs, e.g. a table of
// 1..N deposits): the last answer must be the one-shot answer.
func c30EstimateIncrementally(s c30Shape) (int64, error) {
	e := NewTransactionSizeEstimator()
	steps := []func(){
		func() { e.AddPublicKeyHashInputs(s.In[c30InP2PKH], false) },
		func() { e.AddPublicKeyHashInputs(s.In[c30InP2WPKH], true) },
		func() { e.AddScriptHashInputs(s.In[c30InP2SH92], 92, false) },
		func() { e.AddScriptHashInputs(s.In[c30InP2SH126], 126, false) },
		func() { e.AddScriptHashInputs(s.In[c30InP2WSH92], 92, true) },
		func() { e.AddScriptHashInputs(s.In[c30InP2WSH126], 126, true) },
		func() { e.AddPublicKeyHashOutputs(s.Out[c30OutP2PKH], false) },
		func() { e.AddPublicKeyHashOutputs(s.Out[c30OutP2WPKH], true) },
		func() { e.AddScriptHashOutputs(s.Out[c30OutP2SH], false) },
		func() { e.AddScriptHashOutputs(s.Out[c30OutP2WSH], true) },
	}
	var last int64
	var err error
	for _, st := range steps {
		st()
		last, err = e.VirtualSize() // intermediate shapes may be refused; only the last answer counts
	}
	return last, err
}

// c30Real builds and signs the real transaction of the shape; returns it and the lengths
// of the signatures it was given.
func c30Real(s c30Shape) (*Transaction, []int, error) {
	priv := c30Key()
	pkh := c30Hash160((*btcec.PublicKey)(&priv.PublicKey).SerializeCompressed())
	chain := &c30Chain{txs: map[Hash]*Transaction{}}
	builder := NewTransactionBuilder(chain)
	n := 0
	for kind := 0; kind < c30InKinds; kind++ {
		for j := 0; j < s.In[kind]; j++ {
			n++
			var pk, redeem []byte
			switch kind {
			case c30InP2PKH:
				pk = append(append([]byte{0x76, 0xa9, 0x14}, pkh...), 0x88, 0xac)
			case c30InP2WPKH:
				pk = append([]byte{0x00, 0x14}, pkh...)
			case c30InP2SH92, c30InP2SH126:
				redeem = c30DepositScript(pkh, kind == c30InP2SH126, byte(n))
				pk = append(append([]byte{0xa9, 0x14}, c30Hash160(redeem)...), 0x87)
			case c30InP2WSH92, c30InP2WSH126:
				redeem = c30DepositScript(pkh, kind == c30InP2WSH126, byte(n))
				h := sha256.Sum256(redeem)
				pk = append([]byte{0x00, 0x20}, h[:]...)
			}
			if redeem != nil {
				want := 92
				if kind == c30InP2SH126 || kind == c30InP2WSH126 {
					want = 126
				}
				if len(redeem) != want {
					return nil, nil, fmt.Errorf("harness: deposit script is %d bytes, expected %d", len(redeem), want)
				}
			}
			funding := &Transaction{
				Version: 1,
				Inputs: []*TransactionInput{{
					Outpoint:        &TransactionOutpoint{TransactionHash: Hash{0xc3, byte(n), byte(n >> 8)}, OutputIndex: 0},
					SignatureScript: []byte{0x51},
					Sequence:        0xffffffff,
				}},
				Outputs:  []*TransactionOutput{{Value: 100000 + int64(n), PublicKeyScript: pk}},
				Locktime: uint32(n),
			}
			chain.txs[funding.Hash()] = funding
			utxo := &UnspentTransactionOutput{Outpoint: &TransactionOutpoint{TransactionHash: funding.Hash(), OutputIndex: 0}, Value: 100000 + int64(n)}
			var err error
			if redeem != nil {
				err = builder.AddScriptHashInput(utxo, redeem)
			} else {
				err = builder.AddPublicKeyHashInput(utxo)
			}
			if err != nil {
				return nil, nil, err
			}
		}
	}
	for kind := 0; kind < c30OutKinds; kind++ {
		for j := 0; j < s.Out[kind]; j++ {
			h20 := bytes.Repeat([]byte{0x30 + byte(kind)}, 20)
			var pk []byte
			switch kind {
			case c30OutP2PKH:
				pk = append(append([]byte{0x76, 0xa9, 0x14}, h20...), 0x88, 0xac)
			case c30OutP2WPKH:
				pk = append([]byte{0x00, 0x14}, h20...)
			case c30OutP2SH:
				pk = append(append([]byte{0xa9, 0x14}, h20...), 0x87)
			case c30OutP2WSH:
				pk = append([]byte{0x00, 0x20}, bytes.Repeat([]byte{0x77}, 32)...)
			}
			// the largest amounts: the value field has a fixed width anyway
			builder.AddOutput(&TransactionOutput{Value: 2100000000000000, PublicKeyScript: pk})
		}
	}
	hashes, err := builder.ComputeSignatureHashes()
	if err != nil {
		return nil, nil, err
	}
	sigs := make([]*SignatureContainer, len(hashes))
	lens := make([]int, len(hashes))
	for i, h := range hashes {
		class := s.Class
		if class == c30ClassMixed {
			class = i % 2
		}
		r, ss, l := c30Sign(priv, h, class, i%2 == 1)
		sigs[i] = &SignatureContainer{R: r, S: ss, PublicKey: &priv.PublicKey}
		lens[i] = l
	}
	tx, err := builder.AddSignatures(sigs)
	return tx, lens, err
}

// c30VSize: BIP-141 virtual size from the two serializations.
func c30VSize(tx *Transaction) int64 {
	stripped := int64(len(tx.Serialize(Standard)))
	total := int64(len(tx.Serialize(Witness)))
	weight := stripped*3 + total
	return (weight + 3) / 4
}

// c30SigLens reads the length of the signature push of every input of the signed
// transaction (first witness item, or first push of the signature script).
func c30SigLens(tx *Transaction) []int {
	out := make([]int, len(tx.Inputs))
	for i, in := range tx.Inputs {
		switch {
		case len(in.Witness) > 0:
			out[i] = len(in.Witness[0])
		case len(in.SignatureScript) > 0:
			out[i] = int(in.SignatureScript[0])
		}
	}
	return out
}

func c30Run(r *vrep.R, s c30Shape) {
	fp := s.String()
	size := s.inputs()*10 + s.Out[0] + s.Out[1] + s.Out[2] + s.Out[3]
	report := func(kind, what string) { r.ViolationMin(kind, size, fp, what, s) }
	var est int64
	var eerr error
	if p, stack := vrep.Guard(func() { est, eerr = c30Estimate(s) }); p != nil {
		report("estimator-panic", fmt.Sprintf("estimator panicked: %v\n%s", p, stack))
		return
	}
	if eerr != nil {
		report("estimator-error", "estimator refused the shape: "+eerr.Error())
		return
	}
	var inc int64
	var ierr error
	if p, stack := vrep.Guard(func() { inc, ierr = c30EstimateIncrementally(s) }); p != nil {
		report("estimator-panic", fmt.Sprintf("estimator panicked when the size is read after every step: %v\n%s", p, stack))
		return
	}
	if ierr != nil || inc != est {
		report("estimate-depends-on-earlier-reads", fmt.Sprintf("built in one go the estimator answers %d vbytes; the same shape built on one estimator whose size was read after every step answers %d (err %v)", est, inc, ierr))
	}
	var tx *Transaction
	var lens []int
	var err error
	if p, stack := vrep.Guard(func() { tx, lens, err = c30Real(s) }); p != nil {
		report("harness", fmt.Sprintf("building the real transaction panicked: %v\n%s", p, stack))
		return
	}
	if err != nil {
		report("harness", "cannot build the real transaction: "+err.Error())
		return
	}
	// the signatures in the transaction have the lengths the class promises
	got := c30SigLens(tx)
	for i := range lens {
		if got[i] != lens[i] || (s.Class == c30ClassMax && got[i] != 72) {
			report("harness", fmt.Sprintf("input %d carries a %d-byte signature, class %s promised %d", i, got[i], c30ClassName[s.Class], lens[i]))
			return
		}
	}
	real := c30VSize(tx)
	var msg wire.MsgTx
	if derr := msg.Deserialize(bytes.NewReader(tx.Serialize())); derr != nil {
		report("harness", "btcd cannot parse the real transaction: "+derr.Error())
		return
	}
	if lib := mempool.GetTxVirtualSize(btcutil.NewTx(&msg)); lib != real {
		report("harness", fmt.Sprintf("own virtual size %d differs from mempool.GetTxVirtualSize %d", real, lib))
		return
	}
	if est < real {
		report("undershoot:"+c30ClassName[s.Class], fmt.Sprintf("estimated virtual size %d < real virtual size %d (signature lengths %v)", est, real, got))
		r.Outcome("undershoot")
		return
	}
	switch {
	case est == real:
		r.Outcome("exact:" + c30ClassName[s.Class])
	case est-real <= 2:
		r.Outcome("slack<=2:" + c30ClassName[s.Class])
	default:
		r.Outcome("slack>2:" + c30ClassName[s.Class])
	}
}

// c30Vectors: all count vectors of length n with entries 0..max and sum in [1, total].
func c30Vectors(n, max, total int) [][]int {
	var out [][]int
	cur := make([]int, n)
	var gen func(i, sum int)
	gen = func(i, sum int) {
		if i == n {
			if sum >= 1 {
				out = append(out, append([]int(nil), cur...))
			}
			return
		}
		for c := 0; c <= max && sum+c <= total; c++ {
			cur[i] = c
			gen(i+1, sum+c)
		}
		cur[i] = 0
	}
	gen(0, 0)
	return out
}

func TestVerifC30Estimator(t *testing.T) {
	r := vrep.Start(t, "C30", "estimator")
	defer r.Finish()
	c30Init()
	if rd := r.ReplayData(); rd != nil {
		var s c30Shape
		if json.Unmarshal(rd, &s) == nil && s.inputs() > 0 {
			c30Run(r, s)
			r.Eval(1)
		}
		return
	}
	r.Set("nonce_table", map[string]int{"r33": len(c30Nonces.r33), "r32": len(c30Nonces.r32), "short_r_bytes": c30DerLen(c30Nonces.short[0].r)})
	inMax, inTotal, outMax, outTotal := 2, 3, 2, 3
	if r.Thorough() {
		inMax, inTotal, outMax, outTotal = 3, 5, 3, 6
	}
	ins := c30Vectors(c30InKinds, inMax, inTotal)
	outs := c30Vectors(c30OutKinds, outMax, outTotal)
	var shapes []c30Shape
	for _, in := range ins {
		for _, out := range outs {
			for class := 0; class < c30Classes; class++ {
				var s c30Shape
				copy(s.In[:], in)
				copy(s.Out[:], out)
				s.Class = class
				if class == c30ClassMixed && s.inputs() < 2 {
					continue
				}
				shapes = append(shapes, s)
			}
		}
	}
	// tBTC-sized and compact-size-boundary shapes: one input kind many times
	big := []int{20, 252, 253}
	if !r.Thorough() {
		big = []int{20, 253}
	}
	for kind := 0; kind < c30InKinds; kind++ {
		for _, n := range big {
			var s c30Shape
			s.In[kind] = n
			s.Out[c30OutP2WPKH] = 1
			shapes = append(shapes, s)
		}
	}
	for kind := 0; kind < c30OutKinds; kind++ {
		for _, n := range []int{100, 252, 253} {
			var s c30Shape
			s.In[c30InP2WPKH] = 1
			s.Out[kind] = n
			shapes = append(shapes, s)
		}
	}
	r.Set("input_vectors", len(ins))
	r.Set("output_vectors", len(outs))
	r.Set("shapes", len(shapes))
	r.Sample(shapes[len(shapes)/2])
	r.Sample(shapes[len(shapes)-1])
	vrep.Parallel(vrep.Workers(), len(shapes), func(i int) {
		if r.Expired() {
			return
		}
		c30Run(r, shapes[i])
		r.Distinct(shapes[i].String())
		r.Eval(1)
	})
}
