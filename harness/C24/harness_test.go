//go:build verif

package tbtc

import (
	"context"
	"encoding/hex"
	"encoding/json"
	"fmt"
	"math/big"
	"strings"
	"sync"
	"testing"

	"github.com/keep-network/keep-core/internal/testutils"
	"github.com/keep-network/keep-core/pkg/chain"
	"github.com/keep-network/keep-core/pkg/chain/local_v1"
	"github.com/keep-network/keep-core/pkg/net"
	"github.com/keep-network/keep-core/pkg/operator"
	"github.com/keep-network/keep-core/pkg/protocol/group"
	"github.com/keep-network/keep-core/pkg/verifshim/vctx"
	"github.com/keep-network/keep-core/pkg/verifshim/vrep"
	"github.com/keep-network/keep-core/pkg/verifshim/vsched"
)

// ---- fixed world ----------------------------------------------------------------
//
// Wallet with 4 seats and 3 operators: seat 1 = A, seat 2 = L (leader), seat 3 = F (the
// follower under test), seat 4 = L. The leader's lowest member index is 2.

const (
	c24Window      = uint64(1800)
	c24LeaderID    = group.MemberIndex(2)
	c24LeaderOther = group.MemberIndex(4)
	c24AID         = group.MemberIndex(1)
	c24FID         = group.MemberIndex(3)
)

type c24World struct {
	keyL, keyA, keyF    []byte // operator public keys as the network layer reports them
	addrL, addrA, addrF chain.Address
	privF               *operator.PrivateKey
	wallet              wallet
}

var (
	c24Once sync.Once
	c24W    *c24World
	c24Err  error
)

func c24Setup() (*c24World, error) {
	c24Once.Do(func() {
		w := &c24World{}
		mk := func() (*operator.PrivateKey, []byte, chain.Address) {
			priv, pub, err := operator.GenerateKeyPair(local_v1.DefaultCurve)
			if err != nil {
				c24Err = err
				return nil, nil, ""
			}
			b := operator.MarshalUncompressed(pub)
			signing := local_v1.NewSigner(priv)
			addr := signing.PublicKeyBytesToAddress(b)
			if a2, err := signing.PublicKeyToAddress(pub); err != nil || a2 != addr {
				c24Err = fmt.Errorf("address derivations disagree: %v %v %v", addr, a2, err)
			}
			return priv, b, addr
		}
		_, w.keyL, w.addrL = mk()
		_, w.keyA, w.addrA = mk()
		w.privF, w.keyF, w.addrF = mk()
		pk, err := hex.DecodeString("0471e30bca60f6548d7b42582a478ea37ada63b402af7b3ddd57f0c95bb6843175" +
			"aa0d2053a91a050a6797d85c38f2909cb7027f2344a01986aa2f9f8ca7a0c289")
		if err != nil {
			c24Err = err
			return
		}
		w.wallet = wallet{
			publicKey:             unmarshalPublicKey(pk),
			signingGroupOperators: []chain.Address{w.addrA, w.addrL, w.addrF, w.addrL},
		}
		c24W = w
	})
	return c24W, c24Err
}

func (w *c24World) label(a chain.Address) string {
	switch a {
	case w.addrL:
		return "L"
	case w.addrA:
		return "A"
	case w.addrF:
		return "F"
	}
	return "?" + string(a)
}

// ---- message alphabet -----------------------------------------------------------

type c24Kind struct {
	name string
	// who signs (transport-level sender), which member index the message claims
	from   byte // 'L', 'A', 'F'
	id     group.MemberIndex
	block  uint64
	wallet bool // true = this wallet
	action WalletActionType
	notMsg bool // payload of another message type
	// expectation
	valid    bool   // satisfies every condition of the statement
	required string // fault that must be recorded when the message is processed ("A:LeaderImpersonation")
	optional string // fault the statement neither demands nor forbids
}

var c24Kinds = []c24Kind{
	{name: "V", from: 'L', id: c24LeaderID, block: c24Window, wallet: true, action: ActionRedemption, valid: true},
	{name: "Vnoop", from: 'L', id: c24LeaderID, block: c24Window, wallet: true, action: ActionNoop, valid: true},
	// the leader operator using its other seat: not the lowest index; whether that is
	// "impersonation" is not stated -> a fault naming L is accepted, not demanded
	{name: "LO", from: 'L', id: c24LeaderOther, block: c24Window, wallet: true, action: ActionRedemption, optional: "L:LeaderImpersonation"},
	// another operator claiming the leader's index: membership check fails; the code drops
	// it silently; a fault naming the actual sender would also satisfy the statement
	{name: "AL", from: 'A', id: c24LeaderID, block: c24Window, wallet: true, action: ActionRedemption, optional: "A:LeaderImpersonation"},
	// another operator raising its own proposal for this window and wallet
	{name: "AO", from: 'A', id: c24AID, block: c24Window, wallet: true, action: ActionRedemption, required: "A:LeaderImpersonation"},
	{name: "AOda", from: 'A', id: c24AID, block: c24Window, wallet: true, action: ActionHeartbeat, required: "A:LeaderImpersonation"},
	{name: "Wprev", from: 'L', id: c24LeaderID, block: c24Window - coordinationFrequencyBlocks, wallet: true, action: ActionRedemption},
	{name: "Wnext", from: 'L', id: c24LeaderID, block: c24Window + coordinationFrequencyBlocks, wallet: true, action: ActionRedemption},
	{name: "WW", from: 'L', id: c24LeaderID, block: c24Window, wallet: false, action: ActionRedemption},
	{name: "DA", from: 'L', id: c24LeaderID, block: c24Window, wallet: true, action: ActionHeartbeat, optional: "L:FaultLeaderMistake"},
	{name: "SELF", from: 'F', id: c24FID, block: c24Window, wallet: true, action: ActionRedemption},
	// an honest operator's message that belongs to another window / wallet
	{name: "AWprev", from: 'A', id: c24AID, block: c24Window - coordinationFrequencyBlocks, wallet: true, action: ActionRedemption},
	{name: "AWW", from: 'A', id: c24AID, block: c24Window, wallet: false, action: ActionRedemption},
	{name: "TYPE", from: 'L', id: c24LeaderID, notMsg: true},
}

func c24KindIndex(name string) int {
	for i, k := range c24Kinds {
		if k.name == name {
			return i
		}
	}
	panic("c24: unknown kind " + name)
}

type c24Msg struct {
	idx     int
	sender  []byte
	payload interface{}
	obs     *c24Obs
}

func (m *c24Msg) TransportSenderID() net.TransportIdentifier { return nil }
func (m *c24Msg) SenderPublicKey() []byte                    { return m.sender }
func (m *c24Msg) Type() string                               { return "tbtc/coordination_message" }
func (m *c24Msg) Seqno() uint64                              { return uint64(m.idx) }

// Payload is the first thing the follower asks of a message it took from its buffer:
// the call marks the message as processed.
func (m *c24Msg) Payload() interface{} {
	m.obs.processed = append(m.obs.processed, m.idx)
	return m.payload
}

// c24Chan is the broadcast channel fake: it remembers the handler and never calls it
// once the receive context is done (the contract of net.BroadcastChannel.Recv).
type c24Chan struct {
	ctx     context.Context
	handler func(net.Message)
}

func (c *c24Chan) Name() string { return "c24" }
func (c *c24Chan) Send(context.Context, net.TaggedMarshaler, ...net.RetransmissionStrategy) error {
	return nil
}
func (c *c24Chan) Recv(ctx context.Context, h func(net.Message)) { c.ctx, c.handler = ctx, h }
func (c *c24Chan) SetUnmarshaler(func() net.TaggedUnmarshaler)   {}
func (c *c24Chan) SetFilter(net.BroadcastChannelFilter) error    { return nil }

type c24Scenario struct {
	Kinds  []string `json:"kinds"`
	MaxLen int      `json:"max_len"`
	// Flood: the history starts with FloodLen messages of kind Flood (one member
	// flooding the window), then continues with up to MaxLen chosen messages.
	Flood    string `json:"flood,omitempty"`
	FloodLen int    `json:"flood_len,omitempty"`
}

type c24Obs struct {
	hist      []int // kinds delivered, in order
	proposals []CoordinationProposal
	processed []int // message positions whose Payload() was called
	cancelled bool
	// result
	done              bool
	proposal          CoordinationProposal
	faults            []*coordinationFault
	err               error
	cancelledAtReturn bool
}

func c24Body(w *c24World, sc c24Scenario, obs *c24Obs) func() {
	kinds := make([]int, len(sc.Kinds))
	for i, n := range sc.Kinds {
		kinds[i] = c24KindIndex(n)
	}
	return func() {
		*obs = c24Obs{}
		ctx, cancel := vctx.WithCancel(context.Background())
		lc := &localChain{operatorPrivateKey: w.privF}
		bc := &c24Chan{}
		executor := &coordinationExecutor{
			chain:             lc,
			coordinatedWallet: w.wallet,
			membersIndexes:    w.wallet.membersByOperator(w.addrF),
			operatorAddress:   w.addrF,
			broadcastChannel:  bc,
			membershipValidator: group.NewMembershipValidator(
				&testutils.MockLogger{}, w.wallet.signingGroupOperators, lc.Signing()),
		}
		realHash := executor.walletPublicKeyHash()
		// the network: delivers any history over the alphabet while the active phase
		// lasts, then the phase ends
		vsched.GoNamed("net", func() {
			vsched.Block("handler registered", func() bool { return bc.handler != nil })
			for i := 0; i < sc.FloodLen+sc.MaxLen; i++ {
				var ki int
				if i < sc.FloodLen {
					ki = c24KindIndex(sc.Flood)
				} else {
					c := vsched.Choose(len(kinds)+1, "msg")
					if c == len(kinds) {
						break
					}
					ki = kinds[c]
				}
				k := c24Kinds[ki]
				m := &c24Msg{idx: i, obs: obs}
				switch k.from {
				case 'L':
					m.sender = w.keyL
				case 'A':
					m.sender = w.keyA
				default:
					m.sender = w.keyF
				}
				var prop CoordinationProposal
				if k.notMsg {
					m.payload = &signingDoneMessage{senderID: k.id}
				} else {
					switch k.action {
					case ActionRedemption:
						prop = &RedemptionProposal{RedemptionTxFee: big.NewInt(int64(1000 + i))}
					case ActionNoop:
						prop = &NoopProposal{}
					default:
						prop = &HeartbeatProposal{Message: [16]byte{byte(i)}}
					}
					hash := realHash
					if !k.wallet {
						hash = [20]byte{0x01}
					}
					m.payload = &coordinationMessage{senderID: k.id, coordinationBlock: k.block, walletPublicKeyHash: hash, proposal: prop}
				}
				if bc.ctx.Err() != nil {
					break
				}
				obs.hist = append(obs.hist, ki)
				obs.proposals = append(obs.proposals, prop)
				bc.handler(m)
			}
			cancel()
			obs.cancelled = true
		})
		obs.proposal, obs.faults, obs.err = executor.executeFollowerRoutine(
			ctx, w.addrL, c24Window, []WalletActionType{ActionRedemption, ActionNoop})
		obs.done = true
		obs.cancelledAtReturn = obs.cancelled
	}
}

func c24Hist(h []int) string {
	var p []string
	for _, k := range h {
		p = append(p, c24Kinds[k].name)
	}
	return strings.Join(p, " ")
}

func TestVerifC24(t *testing.T) {
	r := vrep.Start(t, "C24", "sched")
	defer r.Finish()
	w, err := c24Setup()
	if err != nil {
		t.Fatalf("setup: %v", err)
	}
	type replay struct {
		Scenario c24Scenario `json:"scenario"`
		Choices  []int       `json:"choices"`
		Bound    int         `json:"bound"`
	}
	var obs c24Obs
	faultStr := func(f *coordinationFault) string { return w.label(f.culprit) + ":" + f.faultType.String() }
	evaluate := func(sc c24Scenario, bound int, s *vsched.Sched) {
		r.Eval(1)
		rp := replay{sc, s.Choices(), bound}
		var got []string
		for _, f := range obs.faults {
			got = append(got, faultStr(f))
		}
		fail := func(kind, what string) {
			r.ViolationMin(kind, len(obs.hist)*100+len(s.Choices()), fmt.Sprintf("%s history=[%s]", kind, c24Hist(obs.hist)),
				fmt.Sprintf("messages delivered [%s], processed %v, returned proposal=%v err=%v faults=%v: %s [schedule %s]",
					c24Hist(obs.hist), obs.processed, obs.proposal != nil, obs.err, got, what, s.Trace()), rp)
		}
		if p, stack := s.Failed(); p != nil {
			fail("panic", fmt.Sprintf("panic: %v\n%s", p, stack))
			return
		}
		if s.StepCapHit {
			r.Cap("step-cap")
			return
		}
		if !obs.done {
			fail("not-returned", fmt.Sprintf("the follower routine did not return although the active phase ended (blocked: %v)", s.Deadlock))
			return
		}
		// processed messages must be a prefix of the delivered ones, in order
		for i, p := range obs.processed {
			if p != i {
				fail("order", "messages were not processed in delivery order")
				return
			}
		}
		// reference walk over the processed messages: what must / may have been recorded
		type slot struct {
			fault    string
			required bool
		}
		var pattern []slot
		accepted := -1
		for i := range obs.processed {
			k := c24Kinds[obs.hist[i]]
			if accepted >= 0 {
				fail("processed-after-accept", fmt.Sprintf("message %d was processed after a valid proposal (message %d) had been seen", i, accepted))
				return
			}
			switch {
			case k.valid:
				accepted = i
			case k.required != "":
				pattern = append(pattern, slot{k.required, true})
			case k.optional != "":
				pattern = append(pattern, slot{k.optional, false})
			}
		}
		if accepted >= 0 {
			want := obs.proposals[accepted]
			switch {
			case obs.proposal == nil:
				fail("valid-ignored", fmt.Sprintf("message %d is the leader's valid proposal and was processed, but no proposal was returned", accepted))
				return
			case obs.proposal != want:
				fail("wrong-proposal", fmt.Sprintf("returned proposal is not the one of the first valid message (%d)", accepted))
				return
			case obs.err != nil:
				fail("error-with-proposal", "a proposal was returned together with an error")
				return
			}
		} else {
			if obs.proposal != nil {
				src := -1
				for i, p := range obs.proposals {
					if p == obs.proposal {
						src = i
					}
				}
				what := "returned a proposal that no delivered message carried"
				if src >= 0 {
					k := c24Kinds[obs.hist[src]]
					what = fmt.Sprintf("returned the proposal of message %d (%s: sent by operator %c, member index %d, block %d, this wallet %v, action %s) which does not satisfy the conditions", src, k.name, k.from, k.id, k.block, k.wallet, k.action)
				}
				fail("invalid-accepted", what)
				return
			}
			if !obs.cancelledAtReturn {
				fail("gave-up-early", "returned without a proposal before the active phase ended")
				return
			}
			if obs.err == nil {
				fail("idle-no-error", "no proposal and no error returned")
				return
			}
			pattern = append(pattern, slot{"L:LeaderIdleness", true})
		}
		// the recorded faults must be the pattern with any subset of the optional slots
		// left out, in order
		// (memoised: a flood of optional slots makes the plain recursion exponential)
		memo := map[[2]int]bool{}
		var match func(i, j int) bool
		match = func(i, j int) bool {
			if i == len(pattern) {
				return j == len(got)
			}
			k := [2]int{i, j}
			if v, ok := memo[k]; ok {
				return v
			}
			v := j < len(got) && got[j] == pattern[i].fault && match(i+1, j+1) ||
				!pattern[i].required && match(i+1, j)
			memo[k] = v
			return v
		}
		if !match(0, 0) {
			var pat []string
			need := map[string]int{}
			may := map[string]int{}
			for _, sl := range pattern {
				if sl.required {
					pat = append(pat, sl.fault)
					need[sl.fault]++
				} else {
					pat = append(pat, "("+sl.fault+")")
				}
				may[sl.fault]++
			}
			kind := "fault-sequence"
			for _, g := range got {
				if may[g] == 0 {
					kind = "fault-unjustified:" + g
					break
				}
				may[g]--
				if need[g] > 0 {
					need[g]--
				}
			}
			if kind == "fault-sequence" {
				for f, n := range need {
					if n > 0 && (kind == "fault-sequence" || "fault-missing:"+f < kind) {
						kind = "fault-missing:" + f
					}
				}
			}
			fail(kind, fmt.Sprintf("recorded faults %v do not fit what the processed messages justify: %v (parenthesised = neither demanded nor forbidden)", got, pat))
			return
		}
		for n := 0; n <= len(got); n++ {
			if n < len(got) || accepted >= 0 {
				r.State(fmt.Sprintf("faults=%v running", got[:n]))
			}
		}
		final := "returned-proposal"
		if accepted < 0 {
			final = "returned-idle"
		}
		r.State(fmt.Sprintf("faults=%v %s", got, final))
		r.Transition(len(obs.processed) + 1)
		interesting := 0
		for _, k := range obs.hist {
			kk := c24Kinds[k]
			if kk.valid || kk.required != "" || kk.optional != "" {
				interesting++
			}
		}
		if len(obs.hist) >= 2 && interesting >= 1 {
			r.Distinct(fmt.Sprintf("%v|%v", obs.hist, s.Choices()))
		}
		cls := final + fmt.Sprintf(" faults=%d", len(got))
		if len(obs.processed) < len(obs.hist) {
			cls += " unprocessed-left"
		}
		r.Outcome(cls)
	}
	if rd := r.ReplayData(); rd != nil {
		var rp replay
		if json.Unmarshal(rd, &rp) == nil && len(rp.Scenario.Kinds) > 0 {
			s := vsched.Replay(rp.Choices, vsched.Options{Bound: rp.Bound}, c24Body(w, rp.Scenario, &obs))
			evaluate(rp.Scenario, rp.Bound, s)
		}
		return
	}
	var all []string
	for _, k := range c24Kinds {
		all = append(all, k.name)
	}
	core := []string{"V", "LO", "AL", "AO", "Wprev", "Wnext", "WW", "DA", "SELF", "AWprev"}
	type run struct {
		sc    c24Scenario
		bound int
	}
	runs := []run{
		{c24Scenario{Kinds: all, MaxLen: 4}, 0},
		{c24Scenario{Kinds: all, MaxLen: 3}, 1},
		{c24Scenario{Kinds: core, MaxLen: 3}, 2},
		// one member floods the window with fault-producing messages before the rest
		{c24Scenario{Kinds: []string{"AO", "V", "DA", "LO"}, MaxLen: 2, Flood: "LO", FloodLen: 40}, 0},
		{c24Scenario{Kinds: []string{"AO", "V", "DA", "LO"}, MaxLen: 1, Flood: "AOda", FloodLen: 40}, 0},
	}
	if r.Thorough() {
		runs = []run{
			{c24Scenario{Kinds: all, MaxLen: 5}, 0},
			{c24Scenario{Kinds: all, MaxLen: 4}, 1},
			{c24Scenario{Kinds: all, MaxLen: 3}, 2},
			{c24Scenario{Kinds: core, MaxLen: 3}, 3},
			{c24Scenario{Kinds: []string{"AO", "V", "DA", "LO", "AL"}, MaxLen: 2, Flood: "LO", FloodLen: 40}, 1},
			{c24Scenario{Kinds: []string{"AO", "V", "DA", "LO", "AL"}, MaxLen: 2, Flood: "AOda", FloodLen: 600}, 0},
		}
	}
	shard, shards := r.Shard()
	if shard == 0 {
		sc := runs[0].sc
		first := vsched.Replay(nil, vsched.Options{Bound: 9}, c24Body(w, sc, &obs))
		script := first.Choices()
		a := vsched.Replay(script, vsched.Options{Bound: 9}, c24Body(w, sc, &obs))
		oa := fmt.Sprintf("%v %v %v %v", obs.hist, obs.processed, obs.proposal != nil, len(obs.faults))
		b := vsched.Replay(script, vsched.Options{Bound: 9}, c24Body(w, sc, &obs))
		ob := fmt.Sprintf("%v %v %v %v", obs.hist, obs.processed, obs.proposal != nil, len(obs.faults))
		if !vsched.SameRun(a, b) || oa != ob {
			t.Fatalf("NONDETERMINISM: two runs of the same script differ: %s / %s", oa, ob)
		}
		r.ReplayedTwice(1)
		r.Sample(map[string]any{"scenario": sc, "script": script, "delivered": c24Hist(obs.hist), "observed": oa})
	}
	maxBound := 0
	for _, ru := range runs {
		sc := ru.sc
		for bound := 0; bound <= ru.bound; bound++ {
			if bound < ru.bound && shard != 0 {
				continue // lower bounds are subsumed; shard 0 runs them for the iteration report
			}
			st := vsched.Explore(vsched.Options{Bound: bound, Shard: shard, Shards: shards, Stop: r.Expired},
				c24Body(w, sc, &obs), func(s *vsched.Sched) { evaluate(sc, bound, s) })
			r.Set(fmt.Sprintf("k%d.len%d.flood%d.bound%d_execs", len(sc.Kinds), sc.MaxLen, sc.FloodLen, bound), st.Execs)
			if st.Stopped {
				r.Cap(fmt.Sprintf("kinds %d len %d bound %d not completed", len(sc.Kinds), sc.MaxLen, bound))
			}
			if r.Violations() > 0 {
				break
			}
		}
		if ru.bound > maxBound {
			maxBound = ru.bound
		}
	}
	if shard == 0 {
		r.Set("max_preemption_bound", maxBound)
	}
}
