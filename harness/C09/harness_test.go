//go:build verif

package retry

import (
	"encoding/json"
	"fmt"
	"sort"
	"strings"
	"testing"

	"github.com/keep-network/keep-core/pkg/chain"
	"github.com/keep-network/keep-core/pkg/verifshim/vrep"
)

type c09Case struct {
	Fn        string `json:"fn"`
	Seats     string `json:"seats"`
	Requested uint   `json:"requested"`
	Seed      int64  `json:"seed"`
	Retry     uint   `json:"retry"`
}

func c09Seats(s string) []chain.Address {
	out := make([]chain.Address, len(s))
	for i := range s {
		out[i] = chain.Address(s[i : i+1])
	}
	return out
}

func c09Str(a []chain.Address) string {
	var b strings.Builder
	for _, x := range a {
		b.WriteString(string(x))
	}
	return b.String()
}

// c09CheckShape checks the clauses that hold for a single result: sub-list preserving
// order, all-or-nothing per operator, at least the requested number of seats. It
// returns the set of dropped operators.
func c09CheckShape(seats, got []chain.Address, requested uint) (dropped string, problem string) {
	kept := map[chain.Address]bool{}
	for _, g := range got {
		kept[g] = true
	}
	var want []chain.Address
	drop := map[chain.Address]bool{}
	for _, s := range seats {
		if kept[s] {
			want = append(want, s)
		} else {
			drop[s] = true
		}
	}
	if c09Str(want) != c09Str(got) {
		return "", fmt.Sprintf("result %q is not the order-preserving all-or-nothing sub-list %q of %q", c09Str(got), c09Str(want), c09Str(seats))
	}
	if uint(len(got)) < requested {
		return "", fmt.Sprintf("result %q has %d seats, fewer than the %d requested", c09Str(got), len(got), requested)
	}
	var ds []string
	for d := range drop {
		ds = append(ds, string(d))
	}
	sort.Strings(ds)
	return strings.Join(ds, ""), ""
}

func c09Run(r *vrep.R, c c09Case) {
	seats := c09Seats(c.Seats)
	orig := c09Str(seats)
	fn := EvaluateRetryParticipantsForSigning
	if c.Fn == "keygen" {
		fn = EvaluateRetryParticipantsForKeyGeneration
	}
	fp := fmt.Sprintf("%s seats=%s requested=%d seed=%d retry=%d", c.Fn, c.Seats, c.Requested, c.Seed, c.Retry)
	report := func(kind, what string) {
		r.ViolationMin(c.Fn+":"+kind, len(c.Seats)*1000+int(c.Requested)*10+int(c.Retry), fp, what, c)
	}
	var got []chain.Address
	var err error
	if p, stack := vrep.Guard(func() { got, err = fn(seats, c.Seed, c.Retry, c.Requested) }); p != nil {
		report("panic", fmt.Sprintf("panic: %v\n%s", p, stack))
		return
	}
	if c09Str(seats) != orig {
		report("input-mutated", "the input seat list was modified")
	}
	if err != nil {
		return
	}
	if _, p := c09CheckShape(seats, got, c.Requested); p != "" {
		report("shape", p)
	}
	// identical on every node: a second evaluation over a fresh copy of the input
	got2, err2 := fn(c09Seats(c.Seats), c.Seed, c.Retry, c.Requested)
	if err2 != nil || c09Str(got2) != c09Str(got) {
		report("nondeterministic", fmt.Sprintf("two evaluations differ: %q vs %q (%v)", c09Str(got), c09Str(got2), err2))
	}
}

func TestVerifC09(t *testing.T) {
	r := vrep.Start(t, "C09", "retry")
	defer r.Finish()
	if rd := r.ReplayData(); rd != nil {
		var c c09Case
		if json.Unmarshal(rd, &c) == nil && c.Fn != "" {
			c09Run(r, c)
			if c.Fn == "keygen" {
				c09Keygen(r, c.Seats, c.Requested, c.Seed)
			}
		}
		return
	}
	maxLen, ops := 5, 4
	seeds := []int64{0, 1, 7, 42}
	signSeeds := 16
	if r.Thorough() {
		maxLen, ops = 7, 5
		seeds = []int64{0, 1, 7, 42, 1 << 40, -3}
		signSeeds = 64
	}
	var lists []string
	var gen func(prefix string)
	gen = func(prefix string) {
		if len(prefix) > 0 {
			lists = append(lists, prefix)
		}
		if len(prefix) == maxLen {
			return
		}
		for o := 0; o < ops; o++ {
			gen(prefix + string(rune('A'+o)))
		}
	}
	gen("")
	r.Set("seat_lists", len(lists))
	r.Sample(map[string]any{"fn": "keygen", "seats": "ABCCCDE"[:min(7, maxLen)], "requested": 4, "seed": 0, "retries": "0..exhaustion+1"})
	vrep.Parallel(vrep.Workers(), len(lists), func(i int) {
		if r.Expired() {
			return
		}
		seats := lists[i]
		nops := map[byte]bool{}
		for j := range seats {
			nops[seats[j]] = true
		}
		var evals int
		for req := uint(1); req <= uint(len(seats)); req++ {
			// signing
			shuffles := map[string]bool{}
			for s := 0; s < signSeeds; s++ {
				for retry := uint(0); retry < 3; retry++ {
					c := c09Case{"signing", seats, req, int64(s), retry}
					c09Run(r, c)
					evals++
					if len(nops) >= 2 {
						r.Distinct(fmt.Sprintf("s|%s|%d|%d|%d", seats, req, s, retry))
					}
				}
				var got []chain.Address
				var err error
				if p, _ := vrep.Guard(func() { got, err = EvaluateRetryParticipantsForSigning(c09Seats(seats), int64(s), 0, req) }); p != nil {
					continue
				}
				if err == nil {
					shuffles[c09Str(got)] = true
				}
			}
			if len(shuffles) > 1 {
				r.Add("signing.inputs_with_several_outcomes", 1)
			}
			// key generation
			for _, seed := range seeds {
				evals += c09Keygen(r, seats, req, seed)
			}
		}
		// requested > len must be refused
		if _, err := EvaluateRetryParticipantsForSigning(c09Seats(seats), 0, 0, uint(len(seats))+1); err == nil {
			r.ViolationMin("signing:too-many-accepted", len(seats), "signing seats="+seats, "requested more seats than exist and got no error", c09Case{"signing", seats, uint(len(seats)) + 1, 0, 0})
		}
		if _, err := EvaluateRetryParticipantsForKeyGeneration(c09Seats(seats), 0, 0, uint(len(seats))+1); err == nil {
			r.ViolationMin("keygen:too-many-accepted", len(seats), "keygen seats="+seats, "requested more seats than exist and got no error", c09Case{"keygen", seats, uint(len(seats)) + 1, 0, 0})
		}
		r.Eval(evals + 2)
	})
}

// c09Keygen walks retry counts 0,1,2,... until the error and checks the enumeration
// clause: distinct exclusions, singles then pairs then triplets, each eligible one
// exactly once.
func c09Keygen(r *vrep.R, seats string, req uint, seed int64) int {
	count := map[byte]int{}
	for j := range seats {
		count[seats[j]]++
	}
	var opsList []byte
	for o := range count {
		opsList = append(opsList, o)
	}
	sort.Slice(opsList, func(i, j int) bool { return opsList[i] < opsList[j] })
	// reference: eligible exclusion sets of size 1,2,3
	var want [4][]string
	n := len(opsList)
	for m := 1; m < 1<<uint(n); m++ {
		sz, removed, name := 0, 0, ""
		for b := 0; b < n; b++ {
			if m>>uint(b)&1 == 1 {
				sz++
				removed += count[opsList[b]]
				name += string(opsList[b])
			}
		}
		if sz <= 3 && len(seats)-removed >= int(req) {
			want[sz] = append(want[sz], name)
		}
	}
	total := len(want[1]) + len(want[2]) + len(want[3])
	seen := map[string]uint{}
	lastSize := 0
	evals := 0
	fpBase := fmt.Sprintf("keygen seats=%s requested=%d seed=%d", seats, req, seed)
	report := func(kind string, retry uint, what string) {
		r.ViolationMin("keygen:"+kind, len(seats)*1000+int(req)*10+int(retry), fmt.Sprintf("%s retry=%d", fpBase, retry), what, c09Case{"keygen", seats, req, seed, retry})
	}
	for retry := uint(0); retry <= uint(total)+1; retry++ {
		c := c09Case{"keygen", seats, req, seed, retry}
		c09Run(r, c)
		evals++
		var got []chain.Address
		var err error
		if p, _ := vrep.Guard(func() { got, err = EvaluateRetryParticipantsForKeyGeneration(c09Seats(seats), seed, retry, req) }); p != nil {
			break // reported by c09Run
		}
		if n >= 2 {
			r.Distinct(fmt.Sprintf("k|%s|%d|%d|%d", seats, req, seed, retry))
		}
		if err != nil {
			if int(retry) < total {
				report("early-exhaustion", retry, fmt.Sprintf("error at retry %d although %d eligible exclusions exist (%v): %v", retry, total, want, err))
			}
			r.Outcome("keygen:error")
			break
		}
		if int(retry) >= total {
			report("late-exhaustion", retry, fmt.Sprintf("retry %d still returns %q although only %d eligible exclusions exist", retry, c09Str(got), total))
			break
		}
		dropped, p := c09CheckShape(c09Seats(seats), got, req)
		if p != "" {
			continue // reported by c09Run
		}
		if prev, dup := seen[dropped]; dup {
			report("repeated-exclusion", retry, fmt.Sprintf("exclusion {%s} returned at retry %d and again at retry %d", dropped, prev, retry))
		}
		seen[dropped] = retry
		sz := len(dropped)
		r.Outcome(fmt.Sprintf("keygen:exclude%d", sz))
		if sz < 1 || sz > 3 {
			report("exclusion-size", retry, fmt.Sprintf("retry %d excluded %d operators {%s}", retry, sz, dropped))
		}
		if sz < lastSize {
			report("exclusion-order", retry, fmt.Sprintf("retry %d excluded %d operators after a retry that excluded %d", retry, sz, lastSize))
		}
		lastSize = sz
		// position: singles occupy retries [0,|want1|), pairs the next |want2|, ...
		expSize := 1
		if int(retry) >= len(want[1]) {
			expSize = 2
		}
		if int(retry) >= len(want[1])+len(want[2]) {
			expSize = 3
		}
		if sz != expSize && sz >= 1 && sz <= 3 {
			report("exclusion-tier", retry, fmt.Sprintf("retry %d excluded {%s} (size %d) but eligible singles/pairs/triplets are %d/%d/%d so size %d was due", retry, dropped, sz, len(want[1]), len(want[2]), len(want[3]), expSize))
		}
	}
	return evals
}

func min(a, b int) int {
	if a < b {
		return a
	}
	return b
}
