//go:build verif

package gjkr

// C14, second unit: ties the toy exploration to the real protocol. Three real GJKR
// members run gjkr's real state chain through the real (instrumented) SyncMachine under
// the cooperative scheduler, against a harness block counter and broadcast channel, on
// the default schedule and on every schedule that differs from it by one free choice
// at the first few choice points. Oracle: every member returns at exactly
// start + ProtocolBlocks(), in the finalization state, with the same group public key.

import (
	"context"
	"fmt"
	"math/big"
	"testing"

	"github.com/keep-network/keep-core/internal/testutils"
	"github.com/keep-network/keep-core/pkg/chain"
	"github.com/keep-network/keep-core/pkg/net"
	"github.com/keep-network/keep-core/pkg/protocol/group"
	"github.com/keep-network/keep-core/pkg/protocol/state"
	"github.com/keep-network/keep-core/pkg/verifshim/vrep"
	"github.com/keep-network/keep-core/pkg/verifshim/vsched"
)

type c14gBlocks struct {
	cur     uint64
	waiters []*c14gWaiter
}
type c14gWaiter struct {
	h  uint64
	ch chan uint64
}

func (b *c14gBlocks) WaitForBlockHeight(h uint64) error {
	vsched.Block(fmt.Sprintf("block>=%d", h), func() bool { return b.cur >= h })
	return nil
}
func (b *c14gBlocks) BlockHeightWaiter(h uint64) (<-chan uint64, error) {
	ch := make(chan uint64, 1)
	if h <= b.cur {
		ch <- h
	} else {
		b.waiters = append(b.waiters, &c14gWaiter{h, ch})
	}
	return ch, nil
}
func (b *c14gBlocks) CurrentBlock() (uint64, error)             { return b.cur, nil }
func (b *c14gBlocks) WatchBlocks(context.Context) <-chan uint64 { return nil }
func (b *c14gBlocks) mine() {
	b.cur++
	keep := b.waiters[:0]
	for _, w := range b.waiters {
		if w.h <= b.cur {
			w.ch <- w.h
		} else {
			keep = append(keep, w)
		}
	}
	b.waiters = keep
}

type c14gReg struct {
	ctx context.Context
	h   func(net.Message)
}
type c14gNet struct{ regs map[int][]*c14gReg }
type c14gChan struct {
	net  *c14gNet
	self int
	key  []byte
}

func (c *c14gChan) Name() string { return "c14g" }
func (c *c14gChan) Send(_ context.Context, m net.TaggedMarshaler, _ ...net.RetransmissionStrategy) error {
	for peer := 1; peer <= len(c.net.regs); peer++ {
		if peer == c.self {
			continue
		}
		for _, r := range c.net.regs[peer] {
			if r.ctx.Err() == nil {
				r.h(&c01Msg{payload: m, key: c.key, typ: m.Type()})
			}
		}
	}
	return nil
}
func (c *c14gChan) Recv(ctx context.Context, h func(net.Message)) {
	c.net.regs[c.self] = append(c.net.regs[c.self], &c14gReg{ctx, h})
}
func (c *c14gChan) SetUnmarshaler(func() net.TaggedUnmarshaler) {}
func (c *c14gChan) SetFilter(net.BroadcastChannelFilter) error  { return nil }

type c14gOut struct {
	final state.SyncState
	end   uint64
	err   error
	done  bool
}

func TestVerifC14Gjkr(t *testing.T) {
	r := vrep.Start(t, "C14", "gjkr")
	defer r.Finish()
	if r.ReplayData() != nil {
		return
	}
	const n, th = 3, 1
	const start = 2
	cfg := c01Cfg{N: n, T: th}
	outs := make([]c14gOut, n+1)
	body := func() {
		for i := range outs {
			outs[i] = c14gOut{}
		}
		blocks := &c14gBlocks{}
		nw := &c14gNet{regs: map[int][]*c14gReg{}}
		for i := 1; i <= n; i++ {
			nw.regs[i] = nil
		}
		ops := make([]chain.Address, n)
		for i := 1; i <= n; i++ {
			ops[i-1] = c01Signing{}.PublicKeyBytesToAddress(cfg.key(i))
		}
		validator := group.NewMembershipValidator(&testutils.MockLogger{}, ops, c01Signing{})
		total := uint64(start) + ProtocolBlocks()
		vsched.GoLow("blocks", func() {
			for blocks.cur < total+1 {
				blocks.mine()
				vsched.Yield()
			}
		})
		for i := 1; i <= n; i++ {
			i := i
			vsched.GoNamed(fmt.Sprintf("member%d", i), func() {
				lm, err := NewMember(&testutils.MockLogger{}, group.MemberIndex(i), n, th, validator, big.NewInt(7), "s")
				if err != nil {
					outs[i].err = err
					return
				}
				ch := &c14gChan{net: nw, self: i, key: cfg.key(i)}
				m := state.NewSyncMachine(&testutils.MockLogger{}, ch, blocks,
					&ephemeralKeyPairGenerationState{channel: ch, member: lm.InitializeEphemeralKeysGeneration()})
				outs[i].final, outs[i].end, outs[i].err = m.Execute(start)
				outs[i].done = true
			})
		}
	}
	check := func(s *vsched.Sched) {
		r.Eval(1)
		r.Transition(len(s.Choices()) + 1)
		fail := func(kind, what string) {
			r.ViolationMin("gjkr:"+kind, len(s.Choices()), "real GJKR through SyncMachine: "+kind, what+" [schedule "+s.Trace()+"]", nil)
		}
		if p, stack := s.Failed(); p != nil {
			fail("panic", fmt.Sprintf("panic: %v\n%s", p, stack))
			return
		}
		var key string
		for i := 1; i <= n; i++ {
			o := outs[i]
			if !o.done || o.err != nil {
				fail("no-finish", fmt.Sprintf("member %d did not finish: done=%v err=%v blocked=%v", i, o.done, o.err, s.Deadlock))
				return
			}
			if want := uint64(start) + ProtocolBlocks(); o.end != want {
				fail("end-block", fmt.Sprintf("member %d finished at block %d, start+ProtocolBlocks() is %d", i, o.end, want))
			}
			fs, ok := o.final.(*finalizationState)
			if !ok {
				fail("final-state", fmt.Sprintf("member %d ended in %T", i, o.final))
				return
			}
			res := fs.result()
			<-res.groupPublicKeySharesChannel
			k := res.GroupPublicKey.String()
			if key == "" {
				key = k
			} else if k != key {
				fail("key", fmt.Sprintf("member %d derived a different group key", i))
			}
			if len(res.Group.DisqualifiedMemberIndexes())+len(res.Group.InactiveMemberIndexes()) != 0 {
				fail("misbehaved", fmt.Sprintf("member %d marked members in an all-honest run (messages crossed phases?): dq=%v ia=%v", i, res.Group.DisqualifiedMemberIndexes(), res.Group.InactiveMemberIndexes()))
			}
		}
		r.State(fmt.Sprintf("end=%d script=%v", outs[1].end, s.Choices()))
		r.Distinct(fmt.Sprint(s.Choices()))
		r.Outcome(fmt.Sprintf("all finished at %d", outs[1].end))
	}
	// default schedule + every single-choice departure from it within the first points
	limit := int64(12)
	if r.Thorough() {
		limit = 120
	}
	st := vsched.Explore(vsched.Options{Bound: 0, MaxExecs: limit, MaxSteps: 200000}, body, check)
	r.Set("executions", st.Execs)
	r.Set("note", "conformance unit: a capped number of zero-preemption schedules of the real protocol; the exhaustive exploration is the sync unit")
	r.Sample(map[string]any{"members": n, "start": start, "protocol_blocks": ProtocolBlocks(), "end": outs[1].end})
}
