//go:build verif

package state

// C14: the real SyncMachine.Execute (sync_machine.go recompiled for vsched) runs a toy
// protocol against a harness block counter and broadcast channel. Three logical
// threads: the machine, a block producer and a network thread delivering tagged
// messages. Block and network threads are environment (low priority) threads: with zero
// preemptions the machine always reaches quiescence between two environment events
// ("timely" schedules) and all orders of environment events are explored; every
// preemption lets an environment event overtake the machine (starvation schedules).

import (
	"context"
	"encoding/json"
	"fmt"
	"sort"
	"strings"
	"testing"

	"github.com/keep-network/keep-core/internal/testutils"
	"github.com/keep-network/keep-core/pkg/net"
	"github.com/keep-network/keep-core/pkg/protocol/group"
	"github.com/keep-network/keep-core/pkg/verifshim/vrep"
	"github.com/keep-network/keep-core/pkg/verifshim/vsched"
)

// ---- fakes ----

type c14Blocks struct {
	cur     uint64
	waiters []*c14Waiter
	all     []*c14Waiter // every end-of-state waiter handed out, in order (k-th = state k)
	asked   []string     // heights requested from the counter, in order
}

type c14Waiter struct {
	h    uint64
	ch   chan uint64
	sent bool
}

// ended is the number of states whose end signal the machine has already taken out of
// the waiter channel: from then on the machine itself knows the state is over.
func (b *c14Blocks) ended() int {
	n := 0
	for _, w := range b.all {
		if w.sent && len(w.ch) == 0 {
			n++
		}
	}
	return n
}

func (b *c14Blocks) WaitForBlockHeight(h uint64) error {
	b.asked = append(b.asked, fmt.Sprintf("wait:%d", h))
	vsched.Block(fmt.Sprintf("block>=%d", h), func() bool { return b.cur >= h })
	return nil
}

func (b *c14Blocks) BlockHeightWaiter(h uint64) (<-chan uint64, error) {
	b.asked = append(b.asked, fmt.Sprintf("waiter:%d", h))
	ch := make(chan uint64, 1)
	w := &c14Waiter{h: h, ch: ch}
	b.all = append(b.all, w)
	if h <= b.cur {
		ch <- h
		w.sent = true
	} else {
		b.waiters = append(b.waiters, w)
	}
	return ch, nil
}

func (b *c14Blocks) CurrentBlock() (uint64, error)                { return b.cur, nil }
func (b *c14Blocks) WatchBlocks(context.Context) <-chan uint64    { return nil }

// mine advances the chain by one block (called by the block thread).
func (b *c14Blocks) mine() {
	b.cur++
	keep := b.waiters[:0]
	for _, w := range b.waiters {
		if w.h <= b.cur {
			w.ch <- w.h
			w.sent = true
		} else {
			keep = append(keep, w)
		}
	}
	b.waiters = keep
}

type c14Reg struct {
	ctx context.Context
	h   func(net.Message)
}

type c14Chan struct {
	regs    []*c14Reg
	dropped []string // messages delivered while no registration was live
}

func (c *c14Chan) Name() string { return "c14" }
func (c *c14Chan) Send(context.Context, net.TaggedMarshaler, ...net.RetransmissionStrategy) error {
	return nil
}
func (c *c14Chan) Recv(ctx context.Context, h func(net.Message)) {
	// a real channel takes its handlers mutex here: a scheduling point before and after
	vsched.Yield()
	c.regs = append(c.regs, &c14Reg{ctx, h})
	vsched.Yield()
}
func (c *c14Chan) SetUnmarshaler(func() net.TaggedUnmarshaler)  {}
func (c *c14Chan) SetFilter(net.BroadcastChannelFilter) error   { return nil }

// deliver hands a message to every live registration, as a broadcast channel does.
func (c *c14Chan) deliver(m *c14Msg) (live int) {
	for _, r := range c.regs {
		if r.ctx.Err() == nil {
			live++
			r.h(m)
		}
	}
	return live
}

type c14Msg struct {
	tag   string
	block uint64 // block height at delivery
	live  int    // registrations live at delivery
	ended int    // states whose end signal the machine had already consumed at delivery
}

func (m *c14Msg) TransportSenderID() net.TransportIdentifier { return nil }
func (m *c14Msg) SenderPublicKey() []byte                     { return nil }
func (m *c14Msg) Payload() interface{}                        { return m }
func (m *c14Msg) Type() string                                { return "c14" }
func (m *c14Msg) Seqno() uint64                               { return 0 }

// ---- toy protocol ----

type c14Obs struct {
	initAt   []uint64   // block height observed inside Initiate, per state
	received [][]string // tags handed to each state
	nextAt   []uint64
	blocks   *c14Blocks
}

type c14State struct {
	idx    int
	shape  [][2]uint64 // (delay, active) per state
	obs    *c14Obs
}

func (s *c14State) DelayBlocks() uint64  { return s.shape[s.idx][0] }
func (s *c14State) ActiveBlocks() uint64 { return s.shape[s.idx][1] }
func (s *c14State) Initiate(ctx context.Context) error {
	s.obs.initAt[s.idx] = s.obs.blocks.cur
	return nil
}
func (s *c14State) Receive(m net.Message) error {
	s.obs.received[s.idx] = append(s.obs.received[s.idx], m.(*c14Msg).tag)
	return nil
}
func (s *c14State) Next() (SyncState, error) {
	s.obs.nextAt[s.idx] = s.obs.blocks.cur
	if s.idx+1 == len(s.shape) {
		return nil, nil
	}
	return &c14State{s.idx + 1, s.shape, s.obs}, nil
}
func (s *c14State) MemberIndex() group.MemberIndex { return 1 }

type c14Scenario struct {
	Shape    [][2]uint64 `json:"shape"`
	Start    uint64      `json:"start"`
	Messages int         `json:"messages"`
}

func (sc c14Scenario) String() string {
	return fmt.Sprintf("shape=%v start=%d msgs=%d", sc.Shape, sc.Start, sc.Messages)
}

type c14Result struct {
	obs       c14Obs
	final     SyncState
	end       uint64
	err       error
	returned  bool
	delivered []*c14Msg
	ch        *c14Chan
	blocks    *c14Blocks
}

func c14Body(sc c14Scenario, res *c14Result) func() {
	return func() {
		*res = c14Result{}
		n := len(sc.Shape)
		blocks := &c14Blocks{}
		ch := &c14Chan{}
		res.blocks, res.ch = blocks, ch
		res.obs = c14Obs{initAt: make([]uint64, n), received: make([][]string, n), nextAt: make([]uint64, n), blocks: blocks}
		total := sc.Start
		for _, s := range sc.Shape {
			total += s[0] + s[1]
		}
		vsched.GoLow("blocks", func() {
			for blocks.cur < total+1 {
				blocks.mine()
				vsched.Yield()
			}
		})
		vsched.GoLow("network", func() {
			for i := 0; i < sc.Messages; i++ {
				m := &c14Msg{tag: fmt.Sprintf("m%d", i), block: blocks.cur, ended: blocks.ended()}
				m.live = ch.deliver(m)
				res.delivered = append(res.delivered, m)
				vsched.Yield()
			}
		})
		m := NewSyncMachine(&testutils.MockLogger{}, ch, blocks, &c14State{0, sc.Shape, &res.obs})
		res.final, res.end, res.err = m.Execute(sc.Start)
		res.returned = true
	}
}

type c14Replay struct {
	Scenario c14Scenario `json:"scenario"`
	Choices  []int       `json:"choices"`
	Bound    int         `json:"bound"`
}

func c14Evaluate(r *vrep.R, sc c14Scenario, bound int, s *vsched.Sched, res *c14Result) {
	r.Eval(1)
	r.Transition(len(s.Choices()) + 1)
	timely := s.Cost() == 0
	rp := c14Replay{sc, s.Choices(), bound}
	fail := func(kind, what string) {
		tier := "starved"
		if timely {
			tier = "timely"
		}
		r.ViolationMin(kind, len(s.Choices()), fmt.Sprintf("%s %s (%s)", sc, kind, tier), what+" [schedule "+s.Trace()+"]", rp)
	}
	if p, stack := s.Failed(); p != nil {
		fail("panic", fmt.Sprintf("panic: %v\n%s", p, stack))
		return
	}
	if s.StepCapHit {
		r.Cap("step-cap")
		return
	}
	if !res.returned {
		fail("no-return", fmt.Sprintf("the machine never returned; blocked threads: %v", s.Deadlock))
		return
	}
	if res.err != nil {
		fail("error", fmt.Sprintf("Execute returned an error: %v", res.err))
		return
	}
	// nominal schedule
	n := len(sc.Shape)
	enter := make([]uint64, n)
	initiate := make([]uint64, n)
	end := make([]uint64, n)
	at := sc.Start
	var wantAsked []string
	wantAsked = append(wantAsked, fmt.Sprintf("wait:%d", sc.Start))
	for k, sh := range sc.Shape {
		enter[k] = at
		initiate[k] = at + sh[0]
		end[k] = at + sh[0] + sh[1]
		wantAsked = append(wantAsked, fmt.Sprintf("wait:%d", initiate[k]), fmt.Sprintf("waiter:%d", end[k]))
		at = end[k]
	}
	if res.end != at {
		fail("end-block", fmt.Sprintf("Execute returned end block %d, start+total duration is %d", res.end, at))
	}
	if fs, ok := res.final.(*c14State); !ok || fs.idx != n-1 {
		fail("final-state", fmt.Sprintf("Execute returned state %v, want the last one", res.final))
	}
	if got, want := strings.Join(res.blocks.asked, ","), strings.Join(wantAsked, ","); got != want {
		fail("block-schedule", fmt.Sprintf("block heights requested from the counter: %s, want %s", got, want))
	}
	for k := 0; k < n; k++ {
		if res.obs.initAt[k] < initiate[k] {
			fail("early-initiate", fmt.Sprintf("state %d initiated at block %d before its delay ended at %d", k, res.obs.initAt[k], initiate[k]))
		}
		if timely && res.obs.initAt[k] != initiate[k] {
			fail("late-initiate", fmt.Sprintf("timely schedule: state %d initiated at block %d, want %d", k, res.obs.initAt[k], initiate[k]))
		}
		if res.obs.nextAt[k] < end[k] {
			fail("early-next", fmt.Sprintf("state %d completed at block %d before its end block %d", k, res.obs.nextAt[k], end[k]))
		}
	}
	// messages
	count := map[string]int{}
	where := map[string]int{}
	for k, tags := range res.obs.received {
		for _, t := range tags {
			count[t]++
			where[t] = k
		}
	}
	var classes []string
	for _, m := range res.delivered {
		if count[m.tag] > 1 {
			fail("handed-twice", fmt.Sprintf("message %s (delivered in block %d) was handed to states %d times", m.tag, m.block, count[m.tag]))
		}
		if count[m.tag] == 1 && where[m.tag] < m.ended {
			fail("handed-to-ended-state", fmt.Sprintf("message %s arrived (block %d) after the machine had taken the end signal of state %d, yet it was handed to state %d", m.tag, m.block, m.ended-1, where[m.tag]))
		}
		if m.live > 1 {
			fail("double-registration", fmt.Sprintf("message %s met %d live registrations", m.tag, m.live))
		}
		// window of the delivery block under the nominal schedule
		win := -1
		for k := 0; k < n; k++ {
			if m.block >= enter[k] && m.block < end[k] {
				win = k
			}
		}
		// A state without active blocks ends in the very block it is initiated in: a
		// message that arrived during its delay is dequeued in a select in which the end
		// signal is ready too, so it may legitimately go to the following state(s) as well
		// (no protocol of the repository has a state with a delay and no active blocks;
		// silent states have neither). Phase-exactness is demanded where the window has
		// active blocks.
		acceptable := map[int]bool{win: true}
		for k := win; k >= 0 && k < n && sc.Shape[k][1] == 0; k++ {
			acceptable[k+1] = true
		}
		if timely {
			switch {
			case m.live == 0 && m.block < end[n-1]:
				// the machine listens from before its start block until it returns: in a
				// schedule in which it is never starved every message finds its handler
				fail("not-listening", fmt.Sprintf("timely schedule: message %s arrived in block %d (machine runs until block %d) and no receive handler was registered: it is lost", m.tag, m.block, end[n-1]))
			case win >= 0 && m.live == 1 && count[m.tag] == 1 && !acceptable[where[m.tag]]:
				fail("crossed-phase", fmt.Sprintf("timely schedule: message %s delivered in block %d (window of state %d) was handed to state %d", m.tag, m.block, win, where[m.tag]))
			case win >= 0 && m.block >= sc.Start && m.live == 1 && count[m.tag] == 0 && m.block < end[n-1]:
				fail("lost", fmt.Sprintf("timely schedule: message %s delivered in block %d (window of state %d) with a live registration was never handed to a state", m.tag, m.block, win))
			}
		}
		if count[m.tag] == 1 {
			classes = append(classes, fmt.Sprintf("%d", where[m.tag]))
		} else {
			classes = append(classes, "-")
		}
	}
	sort.Strings(classes)
	key := fmt.Sprintf("%s init=%v handed=%v timely=%v", sc, res.obs.initAt, classes, timely)
	r.State(key)
	r.Outcome(fmt.Sprintf("timely=%v handed=%v", timely, classes))
	if s.Trace() != "" {
		r.Distinct(fmt.Sprintf("%s|%v", sc, s.Choices()))
	}
}

func TestVerifC14(t *testing.T) {
	r := vrep.Start(t, "C14", "sync")
	defer r.Finish()
	var res c14Result
	if rd := r.ReplayData(); rd != nil {
		var rp c14Replay
		if json.Unmarshal(rd, &rp) == nil && len(rp.Scenario.Shape) > 0 {
			s := vsched.Replay(rp.Choices, vsched.Options{Bound: rp.Bound}, c14Body(rp.Scenario, &res))
			c14Evaluate(r, rp.Scenario, rp.Bound, s, &res)
		}
		return
	}
	shapes := [][][2]uint64{
		{{1, 1}, {0, 0}, {1, 2}},
		{{0, 0}, {0, 1}, {0, 0}},
		{{1, 2}, {1, 1}},
	}
	maxBound, msgs := 2, 2
	if r.Thorough() {
		shapes = append(shapes, [][2]uint64{{2, 1}, {0, 0}, {0, 0}, {1, 1}}, [][2]uint64{{0, 2}, {2, 0}, {0, 1}})
		maxBound, msgs = 3, 3
	}
	shard, shards := r.Shard()
	first := true
	for _, shape := range shapes {
		for _, start := range []uint64{0, 2} {
			sc := c14Scenario{shape, start, msgs}
			if first && shard == 0 {
				a := vsched.Replay(nil, vsched.Options{}, c14Body(sc, &res))
				ia := fmt.Sprint(res.obs.initAt, res.obs.received, res.end)
				b := vsched.Replay(nil, vsched.Options{}, c14Body(sc, &res))
				if !vsched.SameRun(a, b) || ia != fmt.Sprint(res.obs.initAt, res.obs.received, res.end) {
					t.Fatalf("NONDETERMINISM: two runs of the empty script differ")
				}
				r.ReplayedTwice(1)
				r.Sample(map[string]any{"scenario": sc, "script": a.Choices(), "initiated_at": res.obs.initAt, "handed": res.obs.received, "end": res.end})
			}
			first = false
			for bound := 0; bound <= maxBound; bound++ {
				if bound < maxBound && shard != 0 {
					continue
				}
				st := vsched.Explore(vsched.Options{Bound: bound, Shard: shard, Shards: shards, Stop: r.Expired},
					c14Body(sc, &res), func(s *vsched.Sched) { c14Evaluate(r, sc, bound, s, &res) })
				if bound < maxBound {
					r.Set(fmt.Sprintf("%v.start%d.bound%d_execs", shape, start, bound), st.Execs)
				}
				if st.Stopped {
					r.Cap(fmt.Sprintf("%s bound %d not completed", sc, bound))
				}
			}
		}
	}
	r.Set("max_preemption_bound", maxBound)
}
