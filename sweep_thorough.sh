#!/bin/bash
export GOFLAGS=-mod=mod GOPROXY=off GOSUMDB=off GOTOOLCHAIN=local VERIF_DIR=$PWD
mkdir -p bin && go build -o bin/vcheck ./cmd/vcheck || exit 1
for i in $(seq -w 3 47) 01 02; do
  id=C$i
  s=$(date +%s)
  out=$(./bin/vcheck $id --tier thorough 2>&1); code=$?
  e=$(date +%s)
  echo "$id exit=$code $((e-s))s $(echo "$out" | grep -v '^WARNING' | tail -1)"
  echo "$out" | grep -A2 "VIOLATION\|ERROR" | head -8
done
