#!/bin/sh
# Builds the /verif tools from files on disk only and pre-warms the Go build cache.
set -e
cd "$(dirname "$0")"
export GOFLAGS=-mod=mod GOPROXY=off GOSUMDB=off GOTOOLCHAIN=local GODEBUG=goindex=0
mkdir -p bin evidence replays
go build -o bin/vcheck ./cmd/vcheck
go build -o bin/vmanifest ./cmd/vmanifest
# warm the build cache for the packages the harnesses live in (plain and -race)
(cd /repo && go test -vet=off -count=1 -run '^$' ./pkg/... >/dev/null 2>&1 || true)
echo "setup done"
