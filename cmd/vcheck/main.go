// vcheck is the single entry point of the /verif machinery.
//
//	vcheck <ID> [--tier quick|thorough] [--replay file] [--mutant name] [--keep] [-v]
//
// It builds a go build overlay that injects the property's harness files, the shim
// packages and instrumented copies of the anchored sources into /repo's *current*
// working tree (nothing is written under /repo), compiles the harness test binaries,
// runs them (sharded over processes where the spec asks for it), merges the per-process
// results into /verif/evidence/<ID>.json and prints VIOLATION / KNOWN-FINDING lines.
//
// Exit 0: property held on everything explored (incl. "deadline hit, exhaustive:false").
// Exit 1: a violation not listed in known_findings.json (VIOLATION line printed).
// Exit 2: infrastructure error (never a VIOLATION line).
package main

import (
	"bytes"
	"crypto/sha256"
	"encoding/hex"
	"encoding/json"
	"flag"
	"fmt"
	"os"
	"os/exec"
	"path/filepath"
	"sort"
	"strconv"
	"strings"
	"sync"
	"time"

	"verif/instr"
)

type instrSpec struct {
	File string   `json:"file"`           // path relative to /repo
	Opts []string `json:"opts,omitempty"` // see instr.Options
	// As: when set, the instrumented copy is written as this (virtual) repo-relative
	// path instead of replacing File (used to copy dependency sources into shim pkgs).
	As string `json:"as,omitempty"`
	// Src: absolute source path override (e.g. a module-cache file copied in-tree).
	Src string `json:"src,omitempty"`
	// Package: rename the package clause of the copy.
	Package string `json:"package,omitempty"`
	// Imports: import path rewrites applied to the copy (old -> new).
	Imports map[string]string `json:"imports,omitempty"`
}

type unitSpec struct {
	Name       string            `json:"name"`
	Package    string            `json:"package"` // repo-relative dir, e.g. pkg/tecdsa/retry
	Test       string            `json:"test"`    // test function name
	Files      map[string]string `json:"files"`   // injected name -> file under harness/<ID>/
	Instrument []instrSpec       `json:"instrument,omitempty"`
	Race       bool              `json:"race,omitempty"`
	// RaceFocus: substrings of function names; a reported data race counts as a
	// violation of this property only when one of its two access stacks has its
	// innermost keep-core frame matching one of them (empty = every race counts).
	RaceFocus    []string          `json:"race_focus,omitempty"`
	Shards       int               `json:"shards,omitempty"`          // processes (quick)
	ShardsT      int               `json:"shards_thorough,omitempty"` // processes (thorough)
	TimeoutQ     int               `json:"timeout_quick_s,omitempty"`
	TimeoutT     int               `json:"timeout_thorough_s,omitempty"`
	GoMaxProcs   int               `json:"gomaxprocs,omitempty"`
	Env          map[string]string `json:"env,omitempty"`
	QuickOnly    bool              `json:"quick_only,omitempty"`
	ThoroughOnly bool              `json:"thorough_only,omitempty"`
}

type spec struct {
	ID          string     `json:"id"`
	Level       string     `json:"level"`
	Rule        string     `json:"rule"`
	Assumptions []string   `json:"assumptions"`
	Units       []unitSpec `json:"units"`
}

type violation struct {
	Fingerprint string          `json:"fingerprint"`
	What        string          `json:"what"`
	Replay      json.RawMessage `json:"replay,omitempty"`
	Kind        string          `json:"kind,omitempty"`
	Size        int             `json:"size,omitempty"`
}

type result struct {
	ID          string           `json:"id"`
	Unit        string           `json:"unit"`
	Evaluations int64            `json:"evaluations"`
	Distinct    int64            `json:"distinct_nontrivial"`
	States      int64            `json:"states"`
	Transitions int64            `json:"transitions"`
	Outcomes    []string         `json:"outcomes"`
	OutcomeN    int              `json:"outcome_count"`
	Samples     []any            `json:"samples"`
	Violations  []violation      `json:"violations"`
	Exhaustive  bool             `json:"exhaustive"`
	Caps        []string         `json:"caps"`
	Extra       map[string]any   `json:"extra"`
	Sums        map[string]int64 `json:"sums"`
	Replayed    int64            `json:"replayed_twice"`
	WallS       float64          `json:"wall_s"`
	Finished    bool             `json:"finished"`
}

type knownFinding struct {
	Property    string `json:"property"`
	Fingerprint string `json:"fingerprint"`
	What        string `json:"what"`
}

type knownFile struct {
	Findings []knownFinding `json:"findings"`
	Fixed    []string       `json:"fixed"`
}

var (
	verifDir = "/verif"
	repoDir  = "/repo"
	verbose  bool
)

func fatal(format string, a ...any) {
	fmt.Fprintf(os.Stderr, "vcheck: "+format+"\n", a...)
	os.Exit(2)
}

func goEnv(extra ...string) []string {
	env := os.Environ()
	env = append(env, "GOFLAGS=-mod=mod", "GOPROXY=off", "GOSUMDB=off", "GOTOOLCHAIN=local", "GODEBUG=goindex=0", "CGO_ENABLED=1")
	return append(env, extra...)
}

func main() {
	if d := os.Getenv("VERIF_DIR"); d != "" {
		verifDir = d
	}
	if d := os.Getenv("VERIF_REPO"); d != "" {
		repoDir = d
	}
	if len(os.Args) < 2 {
		fatal("usage: vcheck <ID> [--tier quick|thorough] [--replay file] [--mutant name]")
	}
	id := os.Args[1]
	fs := flag.NewFlagSet("vcheck", flag.ExitOnError)
	tier := fs.String("tier", envOr("VERIF_TIER", "quick"), "quick|thorough")
	replay := fs.String("replay", "", "replay file")
	mutant := fs.String("mutant", "", "apply /verif/mutants/<ID>-<name>.patch to the overlay copy")
	keep := fs.Bool("keep", false, "keep scratch dir")
	onlyUnit := fs.String("unit", "", "run only this unit")
	noEvidence := fs.Bool("no-evidence", false, "do not write the evidence file")
	fs.BoolVar(&verbose, "v", false, "verbose")
	fs.Parse(os.Args[2:])
	if *tier != "quick" && *tier != "thorough" {
		fatal("bad tier %q", *tier)
	}
	seed, _ := strconv.Atoi(envOr("VERIF_SEED", "0"))
	if *replay != "" {
		if abs, err := filepath.Abs(*replay); err == nil {
			*replay = abs
		}
	}

	start := time.Now()
	var sp spec
	b, err := os.ReadFile(filepath.Join(verifDir, "harness", id, "spec.json"))
	if err != nil {
		fatal("%v", err)
	}
	if err := json.Unmarshal(b, &sp); err != nil {
		fatal("spec.json: %v", err)
	}
	if sp.ID != id {
		fatal("spec id mismatch")
	}

	scratch := os.Getenv("VERIF_SCRATCH")
	if scratch == "" {
		scratch = fmt.Sprintf("/var/tmp/verif-%s-%d", id, os.Getpid())
	}
	os.RemoveAll(scratch)
	if err := os.MkdirAll(scratch, 0o755); err != nil {
		fatal("%v", err)
	}
	if !*keep {
		defer os.RemoveAll(scratch)
	}
	exit := func(code int) {
		if !*keep {
			os.RemoveAll(scratch)
		}
		os.Exit(code)
	}

	// mutant: list of repo-relative files -> patched copy
	mutated := map[string]string{}
	if *mutant != "" {
		mutated, err = applyMutant(id, *mutant, scratch)
		if err != nil {
			fatal("mutant: %v", err)
		}
		*noEvidence = true
	}

	var all []result
	var infraErr []string
	for ui, u := range sp.Units {
		if *onlyUnit != "" && u.Name != *onlyUnit {
			continue
		}
		if u.QuickOnly && *tier != "quick" || u.ThoroughOnly && *tier != "thorough" {
			continue
		}
		rs, err := runUnit(&sp, &u, ui, scratch, *tier, *replay, seed, mutated)
		if err != nil {
			infraErr = append(infraErr, fmt.Sprintf("unit %s: %v", u.Name, err))
			continue
		}
		all = append(all, rs...)
	}
	if len(infraErr) > 0 {
		for _, e := range infraErr {
			fmt.Fprintln(os.Stderr, "vcheck: ERROR "+e)
		}
		// A unit that cannot be built or run is an infrastructure error (exit 2) —
		// unless another unit of the same property did run and reports a violation:
		// then the violation is the more informative verdict (a refactoring that
		// changes an internal signature one unit calls must not hide what the other
		// units see). Evidence is not written in that case.
		anyViolation := false
		for _, r := range all {
			if len(r.Violations) > 0 {
				anyViolation = true
			}
		}
		if !anyViolation {
			exit(2)
		}
		*noEvidence = true
	}
	if len(all) == 0 {
		fatal("no unit ran")
	}

	// merge
	known := loadKnown()
	type agg struct {
		v     violation
		unit  string
		count int
	}
	viol := map[string]*agg{}
	var order []string
	ev := map[string]any{}
	var evals, distinct, states, transitions, replayed int64
	exhaustive := true
	var samples []any
	var caps []string
	outcomes := map[string][]string{}
	extra := map[string]any{}
	perUnit := []map[string]any{}
	unitAgg := map[string]map[string]any{}
	for _, r := range all {
		evals += r.Evaluations
		distinct += r.Distinct
		states += r.States
		transitions += r.Transitions
		replayed += r.Replayed
		if !r.Exhaustive {
			exhaustive = false
		}
		for _, c := range r.Caps {
			caps = appendUniq(caps, r.Unit+":"+c)
		}
		ua := unitAgg[r.Unit]
		if ua == nil {
			ua = map[string]any{"unit": r.Unit, "evaluations": int64(0), "distinct_nontrivial": int64(0), "states": int64(0), "transitions": int64(0), "processes": 0, "outcome_classes": 0}
			unitAgg[r.Unit] = ua
			perUnit = append(perUnit, ua)
		}
		ua["evaluations"] = ua["evaluations"].(int64) + r.Evaluations
		ua["distinct_nontrivial"] = ua["distinct_nontrivial"].(int64) + r.Distinct
		ua["states"] = ua["states"].(int64) + r.States
		ua["transitions"] = ua["transitions"].(int64) + r.Transitions
		ua["processes"] = ua["processes"].(int) + 1
		if r.OutcomeN > ua["outcome_classes"].(int) {
			ua["outcome_classes"] = r.OutcomeN
		}
		if len(outcomes[r.Unit]) < len(r.Outcomes) {
			outcomes[r.Unit] = r.Outcomes
		}
		for i, s := range r.Samples {
			if len(samples) < 8 && i < 3 {
				samples = append(samples, map[string]any{"unit": r.Unit, "case": s})
			}
		}
		for k, v := range r.Extra {
			key := r.Unit + "." + k
			if f, ok := v.(float64); ok {
				if cur, ok := extra[key].(float64); !ok || f > cur {
					extra[key] = f
				}
			} else if _, ok := extra[key]; !ok {
				extra[key] = v
			}
		}
		for k, v := range r.Sums {
			key := r.Unit + "." + k
			cur, _ := extra[key].(int64)
			extra[key] = cur + v
		}
		for _, v := range r.Violations {
			key := v.Fingerprint
			if v.Kind != "" {
				key = "kind:" + v.Kind
			}
			a := viol[key]
			if a == nil {
				a = &agg{v: v, unit: r.Unit}
				viol[key] = a
				order = append(order, key)
			} else if v.Kind != "" && (v.Size < a.v.Size || v.Size == a.v.Size && v.Fingerprint < a.v.Fingerprint) {
				a.v, a.unit = v, r.Unit
			}
			a.count++
		}
	}
	sort.Strings(order)

	newViol := 0
	knownHit := 0
	os.MkdirAll(filepath.Join(verifDir, "replays"), 0o755)
	var out bytes.Buffer
	for _, key := range order {
		a := viol[key]
		fp := a.v.Fingerprint
		if kf := known.match(id, fp); kf != nil {
			knownHit++
			fmt.Fprintf(&out, "KNOWN-FINDING: property=%s %s [%s]\n", id, kf.What, fp)
			continue
		}
		newViol++
		h := sha256.Sum256([]byte(fp))
		path := filepath.Join(verifDir, "replays", fmt.Sprintf("%s-%s.json", id, hex.EncodeToString(h[:6])))
		rf := map[string]any{"property": id, "unit": a.unit, "fingerprint": fp, "what": a.v.What, "replay": a.v.Replay, "tier": *tier}
		if *mutant != "" {
			rf["mutant"] = *mutant
			path = filepath.Join(scratch, filepath.Base(path))
			if *keep {
				// keep mutants' replays out of /verif/replays
			}
		}
		jb, _ := json.MarshalIndent(rf, "", " ")
		os.WriteFile(path, jb, 0o644)
		fmt.Fprintf(&out, "VIOLATION property=%s replay=%s\n", id, path)
		fmt.Fprintf(&out, "  what: %s\n  fingerprint: %s\n", a.v.What, fp)
	}

	// evidence
	cov := map[string]any{
		"evaluations":         evals,
		"distinct_nontrivial": distinct,
		"rule":                sp.Rule,
		"samples":             samples,
		"exhaustive":          exhaustive,
		"units":               perUnit,
		"outcomes":            outcomes,
		"replayed_twice":      replayed,
	}
	if len(caps) > 0 {
		cov["caps_hit"] = caps
	}
	if sp.Level == "model_checking" {
		cov["states"] = states
		cov["transitions"] = transitions
		cov["traces_validated_against_impl"] = evals
	} else if states > 0 {
		cov["states"] = states
		cov["transitions"] = transitions
	}
	for k, v := range extra {
		cov["x."+k] = v
	}
	ev["property_id"] = id
	ev["tier"] = *tier
	ev["seed"] = seed
	ev["level"] = sp.Level
	ev["coverage"] = cov
	ev["assumptions"] = sp.Assumptions
	ev["wall_s"] = round1(time.Since(start).Seconds())
	ev["violations"] = newViol
	ev["known_findings_reported"] = knownHit
	ev["repo_head"] = gitHead()
	if !*noEvidence && *replay == "" {
		jb, _ := json.MarshalIndent(ev, "", " ")
		os.MkdirAll(filepath.Join(verifDir, "evidence"), 0o755)
		if err := os.WriteFile(filepath.Join(verifDir, "evidence", id+".json"), append(jb, '\n'), 0o644); err != nil {
			fatal("evidence: %v", err)
		}
	}
	os.Stdout.Write(out.Bytes())
	fmt.Printf("vcheck %s tier=%s: evaluations=%d distinct=%d states=%d transitions=%d exhaustive=%v violations=%d known=%d wall=%.1fs\n",
		id, *tier, evals, distinct, states, transitions, exhaustive, newViol, knownHit, time.Since(start).Seconds())
	if newViol > 0 {
		exit(1)
	}
	exit(0)
}

func round1(f float64) float64 { return float64(int(f*10)) / 10 }

func appendUniq(s []string, v string) []string {
	for _, x := range s {
		if x == v {
			return s
		}
	}
	return append(s, v)
}

func envOr(k, d string) string {
	if v := os.Getenv(k); v != "" {
		return v
	}
	return d
}

func gitHead() string {
	out, err := exec.Command("git", "-C", repoDir, "rev-parse", "--short", "HEAD").Output()
	if err != nil {
		return ""
	}
	s := strings.TrimSpace(string(out))
	if st, err := exec.Command("git", "-C", repoDir, "status", "--porcelain", "-uno").Output(); err == nil && len(bytes.TrimSpace(st)) > 0 {
		s += "+dirty"
	}
	return s
}

func loadKnown() *knownFile {
	var k knownFile
	b, err := os.ReadFile(filepath.Join(verifDir, "known_findings.json"))
	if err != nil {
		return &k
	}
	if err := json.Unmarshal(b, &k); err != nil {
		fatal("known_findings.json: %v", err)
	}
	return &k
}

func (k *knownFile) match(id, fp string) *knownFinding {
	for i := range k.Findings {
		if k.Findings[i].Property == id && k.Findings[i].Fingerprint == fp {
			return &k.Findings[i]
		}
	}
	return nil
}

// applyMutant applies /verif/mutants/<id>-<name>.patch to scratch copies of the files
// it touches and returns repo-relative path -> patched copy.
func applyMutant(id, name, scratch string) (map[string]string, error) {
	patch := filepath.Join(verifDir, "mutants", id+"-"+name+".patch")
	if _, err := os.Stat(patch); err != nil {
		patch = name // absolute path to any patch file (e.g. seeded/<id>/patch.diff)
		if _, err := os.Stat(patch); err != nil {
			return nil, err
		}
	}
	pb, err := os.ReadFile(patch)
	if err != nil {
		return nil, err
	}
	mdir := filepath.Join(scratch, "mutant")
	res := map[string]string{}
	for _, line := range strings.Split(string(pb), "\n") {
		if strings.HasPrefix(line, "+++ ") {
			f := strings.TrimSpace(strings.TrimPrefix(line, "+++ "))
			if i := strings.IndexByte(f, '\t'); i >= 0 {
				f = f[:i]
			}
			if f == "/dev/null" {
				continue
			}
			if i := strings.IndexByte(f, '/'); i >= 0 { // -p1
				f = f[i+1:]
			}
			dst := filepath.Join(mdir, f)
			os.MkdirAll(filepath.Dir(dst), 0o755)
			src, err := os.ReadFile(filepath.Join(repoDir, f))
			if err != nil && !os.IsNotExist(err) {
				return nil, err
			}
			if err == nil {
				if err := os.WriteFile(dst, src, 0o644); err != nil {
					return nil, err
				}
			}
			res[f] = dst
		}
	}
	cmd := exec.Command("patch", "-p1", "-s", "-i", patch)
	cmd.Dir = mdir
	if out, err := cmd.CombinedOutput(); err != nil {
		return nil, fmt.Errorf("patch failed: %v\n%s", err, out)
	}
	return res, nil
}

func shimFiles() (map[string]string, error) {
	m := map[string]string{}
	root := filepath.Join(verifDir, "shim")
	err := filepath.Walk(root, func(p string, info os.FileInfo, err error) error {
		if err != nil {
			return err
		}
		if info.IsDir() || !strings.HasSuffix(p, ".go") {
			return nil
		}
		rel, _ := filepath.Rel(root, p)
		m[filepath.Join(repoDir, "pkg", "verifshim", rel)] = p
		return nil
	})
	return m, err
}

func runUnit(sp *spec, u *unitSpec, ui int, scratch, tier, replay string, seed int, mutated map[string]string) ([]result, error) {
	udir := filepath.Join(scratch, fmt.Sprintf("u%d", ui))
	os.MkdirAll(udir, 0o755)
	ov, err := shimFiles()
	if err != nil {
		return nil, err
	}
	// mutated files replace the originals (instrumented below if also listed)
	for f, p := range mutated {
		ov[filepath.Join(repoDir, f)] = p
	}
	for name, src := range u.Files {
		ov[filepath.Join(repoDir, u.Package, name)] = filepath.Join(verifDir, "harness", sp.ID, src)
	}
	for i, is := range u.Instrument {
		src := filepath.Join(repoDir, is.File)
		if is.Src != "" {
			src = is.Src
		}
		if p, ok := mutated[is.File]; ok {
			src = p
		}
		dst := filepath.Join(udir, fmt.Sprintf("i%d_%s", i, filepath.Base(is.File)))
		if err := instr.File(src, dst, instr.Options{Opts: is.Opts, Package: is.Package, Imports: is.Imports}); err != nil {
			return nil, fmt.Errorf("instrument %s: %v", is.File, err)
		}
		target := is.File
		if is.As != "" {
			target = is.As
		}
		ov[filepath.Join(repoDir, target)] = dst
	}
	ovb, _ := json.MarshalIndent(map[string]any{"Replace": ov}, "", " ")
	ovPath := filepath.Join(udir, "overlay.json")
	if err := os.WriteFile(ovPath, ovb, 0o644); err != nil {
		return nil, err
	}
	bin := filepath.Join(udir, "h.test")
	args := []string{"test", "-c", "-overlay", ovPath, "-vet=off", "-tags", "verif", "-o", bin}
	if u.Race {
		args = append(args, "-race")
	}
	args = append(args, "./"+u.Package)
	cmd := exec.Command("go", args...)
	cmd.Dir = repoDir
	cmd.Env = goEnv()
	t0 := time.Now()
	if out, err := cmd.CombinedOutput(); err != nil {
		return nil, fmt.Errorf("build failed: %v\n%s", err, out)
	}
	if verbose {
		fmt.Fprintf(os.Stderr, "vcheck: built %s/%s in %.1fs\n", sp.ID, u.Name, time.Since(t0).Seconds())
	}
	shards := u.Shards
	if tier == "thorough" && u.ShardsT > 0 {
		shards = u.ShardsT
	}
	if shards <= 0 {
		shards = 1
	}
	if replay != "" {
		shards = 1
	}
	timeout := u.TimeoutQ
	if timeout <= 0 {
		timeout = 600
	}
	if tier == "thorough" {
		timeout = u.TimeoutT
		if timeout <= 0 {
			timeout = 3600
		}
	}
	deadline := timeout * 8 / 10
	results := make([]result, shards)
	errs := make([]error, shards)
	var wg sync.WaitGroup
	for s := 0; s < shards; s++ {
		wg.Add(1)
		go func(s int) {
			defer wg.Done()
			outFile := filepath.Join(udir, fmt.Sprintf("res%d.json", s))
			c := exec.Command(bin, "-test.run", "^"+u.Test+"$", "-test.count=1", "-test.v", fmt.Sprintf("-test.timeout=%ds", timeout+60))
			c.Dir = filepath.Join(repoDir, u.Package)
			env := goEnv("VERIF_TIER="+tier, "VERIF_OUT="+outFile, fmt.Sprintf("VERIF_SHARD=%d/%d", s, shards),
				fmt.Sprintf("VERIF_DEADLINE_S=%d", deadline), fmt.Sprintf("VERIF_SEED=%d", seed), "VERIF_SCRATCH="+udir)
			if replay != "" {
				env = append(env, "VERIF_REPLAY="+replay)
			}
			raceLog := filepath.Join(udir, fmt.Sprintf("race%d", s))
			if u.Race {
				env = append(env, "GORACE=log_path="+raceLog+" halt_on_error=0")
			}
			if u.GoMaxProcs > 0 {
				env = append(env, fmt.Sprintf("GOMAXPROCS=%d", u.GoMaxProcs))
			}
			for k, v := range u.Env {
				env = append(env, k+"="+v)
			}
			c.Env = env
			var buf bytes.Buffer
			c.Stdout, c.Stderr = &buf, &buf
			if err := c.Start(); err != nil {
				errs[s] = err
				return
			}
			done := make(chan error, 1)
			go func() { done <- c.Wait() }()
			var werr error
			select {
			case werr = <-done:
			case <-time.After(time.Duration(timeout+90) * time.Second):
				c.Process.Kill()
				werr = fmt.Errorf("killed after %ds", timeout+90)
			}
			if verbose {
				os.Stderr.Write(buf.Bytes())
			}
			rb, rerr := os.ReadFile(outFile)
			if rerr != nil {
				errs[s] = fmt.Errorf("shard %d produced no result (%v): %v\n%s", s, werr, rerr, tail(buf.String(), 60))
				return
			}
			if err := json.Unmarshal(rb, &results[s]); err != nil {
				errs[s] = fmt.Errorf("shard %d result: %v", s, err)
				return
			}
			if !results[s].Finished {
				errs[s] = fmt.Errorf("shard %d unfinished", s)
				return
			}
			var races []violation
			var outside []string
			if u.Race {
				races, outside = parseRaces(raceLog, u.RaceFocus)
				results[s].Violations = append(results[s].Violations, races...)
				if len(outside) > 0 {
					if results[s].Extra == nil {
						results[s].Extra = map[string]any{}
					}
					results[s].Extra["races_outside_property"] = outside
					for _, o := range outside {
						fmt.Fprintf(os.Stderr, "vcheck: note: data race outside this property's focus: %s\n", o)
					}
				}
			}
			if werr != nil && len(results[s].Violations) > 0 {
				// the harness recorded violations and then died (typically state leaking
				// between executions makes a replayed prefix diverge): the violations are
				// the verdict, the crash is reported as a note
				fmt.Fprintf(os.Stderr, "vcheck: note: %s shard %d ended abnormally after recording %d violation(s): %v\n", u.Name, s, len(results[s].Violations), werr)
			} else if werr != nil && !(u.Race && len(races)+len(outside) > 0) {
				errs[s] = fmt.Errorf("shard %d: test binary failed after writing its result: %v\n%s", s, werr, tail(buf.String(), 60))
			}
			if results[s].Unit == "" {
				results[s].Unit = u.Name
			}
		}(s)
	}
	wg.Wait()
	for _, e := range errs {
		if e != nil {
			return nil, e
		}
	}
	return results, nil
}

func tail(s string, n int) string {
	lines := strings.Split(s, "\n")
	if len(lines) > n {
		lines = lines[len(lines)-n:]
	}
	return strings.Join(lines, "\n")
}

// parseRaces reads the race detector's log files and turns each DATA RACE block into a
// violation whose fingerprint names the innermost keep-core frames of the two accesses.
func parseRaces(logPrefix string, focus []string) (vs []violation, outside []string) {
	files, _ := filepath.Glob(logPrefix + ".*")
	seen := map[string]bool{}
	for _, f := range files {
		b, err := os.ReadFile(f)
		if err != nil {
			continue
		}
		for _, block := range strings.Split(string(b), "==================") {
			if !strings.Contains(block, "WARNING: DATA RACE") {
				continue
			}
			var frames []string
			var accessLines []string // function and file lines of the two access stacks
			inAccess := false
			got := false
			for _, line := range strings.Split(block, "\n") {
				t := strings.TrimSpace(line)
				if inAccess && !strings.HasPrefix(t, "Goroutine ") {
					accessLines = append(accessLines, t)
				}
				switch {
				case strings.HasPrefix(t, "Read at"), strings.HasPrefix(t, "Write at"), strings.HasPrefix(t, "Previous read"), strings.HasPrefix(t, "Previous write"),
					strings.HasPrefix(t, "Atomic read"), strings.HasPrefix(t, "Atomic write"), strings.HasPrefix(t, "Previous atomic"):
					inAccess, got = true, false
				case strings.HasPrefix(t, "Goroutine "):
					inAccess = false
				case inAccess && !got && strings.HasPrefix(t, "github.com/keep-network/keep-core/") && !strings.Contains(t, "verifshim") && !strings.Contains(t, "TestVerif"):
					fn := strings.TrimPrefix(t, "github.com/keep-network/keep-core/")
					if i := strings.LastIndex(fn, "("); i > 0 && strings.HasSuffix(fn, ")") {
						fn = fn[:i]
					}
					frames = append(frames, fn)
					got = true
				}
			}
			sort.Strings(frames)
			fp := "race: " + strings.Join(frames, " <-> ")
			if seen[fp] {
				continue
			}
			seen[fp] = true
			// a focus entry matches the innermost keep-core frame of an access or any
			// function / source file line of the two access stacks (so "pkg/x/file.go"
			// covers helper functions the racing code was moved into)
			match := len(focus) == 0
			for _, fo := range focus {
				for _, fr := range frames {
					if strings.Contains(fr, fo) {
						match = true
					}
				}
				if strings.Contains(fo, ".go") {
					for _, l := range accessLines {
						if strings.Contains(l, fo) {
							match = true
						}
					}
				}
			}
			if !match {
				outside = append(outside, fp)
				continue
			}
			rb, _ := json.Marshal(map[string]any{"race_report": strings.TrimSpace(block)})
			vs = append(vs, violation{Fingerprint: fp, What: "data race reported by the free-running -race pass between " + strings.Join(frames, " and "), Replay: rb})
		}
	}
	return vs, outside
}
