// vmanifest regenerates /verif/MANIFEST.json from harness/*/spec.json and
// manifest_meta.json (level texts, not_applicable list), so the manifest cannot drift
// from the checks that exist.
package main

import (
	"encoding/json"
	"fmt"
	"os"
	"path/filepath"
	"sort"
)

type meta struct {
	Notes         string                       `json:"notes"`
	NotApplicable []map[string]string          `json:"not_applicable"`
	Checks        map[string]map[string]string `json:"checks"`
}

func main() {
	dir := "/verif"
	if len(os.Args) > 1 {
		dir = os.Args[1]
	}
	var m meta
	b, err := os.ReadFile(filepath.Join(dir, "manifest_meta.json"))
	if err != nil {
		panic(err)
	}
	if err := json.Unmarshal(b, &m); err != nil {
		panic(err)
	}
	specs, _ := filepath.Glob(filepath.Join(dir, "harness", "*", "spec.json"))
	sort.Strings(specs)
	var checks []map[string]any
	var served []string
	for _, sp := range specs {
		var s struct {
			ID    string `json:"id"`
			Level string `json:"level"`
		}
		sb, _ := os.ReadFile(sp)
		if err := json.Unmarshal(sb, &s); err != nil {
			panic(fmt.Sprintf("%s: %v", sp, err))
		}
		cm := m.Checks[s.ID]
		if cm == nil {
			continue // harness exists but the property is not claimed (yet)
		}
		served = append(served, s.ID)
		checks = append(checks, map[string]any{
			"property_id":         s.ID,
			"quick_cmd":           "./bin/vcheck " + s.ID + " --tier quick",
			"thorough_cmd":        "./bin/vcheck " + s.ID + " --tier thorough",
			"evidence_file":       "/verif/evidence/" + s.ID + ".json",
			"replay_cmd_template": "./bin/vcheck " + s.ID + " --replay {path}",
			"engine":              cm["engine"],
			"technique":           cm["technique"],
			"level_claimed": map[string]any{
				"category":   s.Level,
				"text":       cm["text"],
				"design_ref": "DESIGN.md §2 " + s.ID,
			},
			"level_note": cm["note"],
		})
	}
	out := map[string]any{
		"version":   1,
		"setup_cmd": "./setup.sh",
		"hooks": map[string]any{
			"guard":            "verif",
			"enable":           "no hook commits: vcheck injects harness files (//go:build verif), shim packages and instrumented copies of the anchored sources with `go test -overlay=<generated> -tags verif` from /repo's current working tree; /repo is never written",
			"baseline_off_cmd": "cd /repo && GOFLAGS=-mod=mod GOPROXY=off GOSUMDB=off GOTOOLCHAIN=local go test -vet=off -count=1 -timeout 25m ./...",
			"source_commits":   []string{},
			"add_only":         true,
		},
		"engines": []map[string]any{
			{"name": "venum", "path": "shim/venum", "kind_free_text": "deviation-bounded stateless DFS over environment/input choice scripts with replay; explicit-state BFS with canonical state keys in harnesses", "serves_properties": served},
			{"name": "vsched", "path": "shim/vsched", "kind_free_text": "cooperative baton scheduler + preemption-bounded stateless DFS (CHESS-style) over real code recompiled by instr (sync/chan/select/go/time/context routed to the scheduler)", "serves_properties": served},
			{"name": "vcheck", "path": "cmd/vcheck", "kind_free_text": "driver: overlay generation from the current /repo tree, sharding, evidence, known findings, replay", "serves_properties": served},
		},
		"checks":         checks,
		"notes":          m.Notes,
		"not_applicable": m.NotApplicable,
	}
	ob, _ := json.MarshalIndent(out, "", " ")
	if err := os.WriteFile(filepath.Join(dir, "MANIFEST.json"), append(ob, '\n'), 0o644); err != nil {
		panic(err)
	}
	fmt.Printf("MANIFEST.json: %d checks, %d not_applicable\n", len(checks), len(m.NotApplicable))
}
