// vmanifest regenerates /verif/MANIFEST.json from harness/*/spec.json and
// manifest_meta.json (level texts, not_applicable list), so the manifest cannot drift
// from the checks that exist.
package main

import (
	"encoding/json"
	"fmt"
	"os"
	"path/filepath"
	"sort"
	"strings"
)

type propLine struct {
	ID string `json:"id"`
}

func main() {
	dir := "/verif"
	if len(os.Args) > 1 {
		dir = os.Args[1]
	}
	// all property ids
	var ids []string
	pb, err := os.ReadFile(filepath.Join(dir, "properties.jsonl"))
	if err != nil {
		panic(err)
	}
	for _, l := range strings.Split(string(pb), "\n") {
		if strings.TrimSpace(l) == "" {
			continue
		}
		var p propLine
		if err := json.Unmarshal([]byte(l), &p); err != nil {
			panic(err)
		}
		ids = append(ids, p.ID)
	}
	var checks []map[string]any
	var served []string
	na := []map[string]string{}
	for _, id := range ids {
		var s struct {
			ID    string `json:"id"`
			Level string `json:"level"`
		}
		var cm map[string]any
		sb, err1 := os.ReadFile(filepath.Join(dir, "harness", id, "spec.json"))
		mb, err2 := os.ReadFile(filepath.Join(dir, "harness", id, "meta.json"))
		if err2 == nil {
			if err := json.Unmarshal(mb, &cm); err != nil {
				panic(fmt.Sprintf("%s meta.json: %v", id, err))
			}
		}
		claimed, _ := cm["claimed"].(bool)
		if err1 != nil || !claimed {
			reason, _ := cm["reason"].(string)
			if reason == "" {
				reason = "check not built yet (planned, see DESIGN.md §2 " + id + ")"
			}
			na = append(na, map[string]string{"property_id": id, "reason": reason})
			continue
		}
		if err := json.Unmarshal(sb, &s); err != nil {
			panic(fmt.Sprintf("%s spec.json: %v", id, err))
		}
		served = append(served, s.ID)
		checks = append(checks, map[string]any{
			"property_id":         s.ID,
			"quick_cmd":           "./bin/vcheck " + s.ID + " --tier quick",
			"thorough_cmd":        "./bin/vcheck " + s.ID + " --tier thorough",
			"evidence_file":       "/verif/evidence/" + s.ID + ".json",
			"replay_cmd_template": "./bin/vcheck " + s.ID + " --replay {path}",
			"engine":              cm["engine"],
			"technique":           cm["technique"],
			"level_claimed": map[string]any{
				"category":   s.Level,
				"text":       cm["text"],
				"design_ref": "DESIGN.md §2 " + s.ID,
			},
			"level_note": cm["note"],
		})
	}
	sort.Strings(served)
	notes := "All checks are bounded exhaustive explorations of the real Go code, injected into /repo's current working tree by build overlays (see DESIGN.md). Properties whose check is not finished are listed under not_applicable until their harness lands."
	out := map[string]any{
		"version":   1,
		"setup_cmd": "./setup.sh",
		"hooks": map[string]any{
			"guard":            "verif",
			"enable":           "no hook commits: vcheck injects harness files (//go:build verif), shim packages and instrumented copies of the anchored sources with `go test -overlay=<generated> -tags verif` from /repo's current working tree; /repo is never written",
			"baseline_off_cmd": "cd /repo && GOFLAGS=-mod=mod GOPROXY=off GOSUMDB=off GOTOOLCHAIN=local go test -vet=off -count=1 -timeout 25m ./...",
			"source_commits":   []string{},
			"add_only":         true,
		},
		"engines": []map[string]any{
			{"name": "venum", "path": "shim/venum", "kind_free_text": "deviation-bounded stateless DFS over environment/input choice scripts with replay; explicit-state BFS with canonical state keys in harnesses", "serves_properties": served},
			{"name": "vsched", "path": "shim/vsched", "kind_free_text": "cooperative baton scheduler + preemption-bounded stateless DFS (CHESS-style) over real code recompiled by instr (sync/chan/select/go/time/context routed to the scheduler)", "serves_properties": served},
			{"name": "vcheck", "path": "cmd/vcheck", "kind_free_text": "driver: overlay generation from the current /repo tree, sharding, evidence, known findings, replay", "serves_properties": served},
		},
		"checks":         checks,
		"notes":          notes,
		"not_applicable": na,
	}
	ob, _ := json.MarshalIndent(out, "", " ")
	if err := os.WriteFile(filepath.Join(dir, "MANIFEST.json"), append(ob, '\n'), 0o644); err != nil {
		panic(err)
	}
	fmt.Printf("MANIFEST.json: %d checks, %d not_applicable\n", len(checks), len(na))
}
