module verif

go 1.22.0

toolchain go1.23.5

require golang.org/x/tools v0.29.0
