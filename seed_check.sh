#!/bin/bash
# usage: seed_check.sh <ID>   — verifies an independently seeded change and runs our check on it.
# Reads /tmp/seed/<ID>/SEED/{patch.diff,meta.json} (+ the demo test file left in that worktree),
# works in a scratch worktree, writes /verif/seeded/<ID>/{patch.diff,demo_test.go,meta.json}.
export GOFLAGS=-mod=mod GOPROXY=off GOSUMDB=off GOTOOLCHAIN=local
id=$1; SEEDROOT=${SEEDROOT:-/tmp/seed}; OUTROOT=${OUTROOT:-/verif/seeded}; src=$SEEDROOT/$id; out=$OUTROOT/$id; log=/var/tmp/seedlog-$id.txt
[ -f $src/SEED/patch.diff ] || { echo "$id no-seed"; exit 0; }
grep -q '"status": *"none"' $src/SEED/meta.json 2>/dev/null && { echo "$id agent-found-none"; mkdir -p $out; cp $src/SEED/meta.json $out/agent_meta.json; exit 0; }
mkdir -p $out; : > $log
wt=/var/tmp/seedwt-$id; git -C /repo worktree remove --force $wt 2>/dev/null; git -C /repo worktree add -q --detach $wt HEAD
# demo file: untracked test file in the agent's worktree
demo=$(git -C $src status --porcelain | grep '^??' | awk '{print $2}' | grep '_test.go$' | grep -v '^SEED/' | head -1)
if [ -z "$demo" ]; then echo "$id no-demo-file"; fi
pkgs=$(grep '^+++ ' $src/SEED/patch.diff | sed "s|^+++ [ab]/||; s|\t.*||" | grep '\.go$' | xargs -n1 dirname | sort -u | sed 's|^|./|')
res_apply=ok; res_build=-; res_demo_without=-; res_demo_with=-; res_repo=-; res_check=-
# demo without patch
if [ -n "$demo" ]; then
  mkdir -p $wt/$(dirname $demo); cp $src/$demo $wt/$demo
  dpkg=./$(dirname $demo); dname=$(grep -o 'func Test[A-Za-z0-9_]*' $wt/$demo | head -1 | sed 's/func //')
  (cd $wt && go test -count=1 -vet=off -run "^$dname\$" $dpkg >>$log 2>&1) && res_demo_without=pass || res_demo_without=FAIL
fi
(cd $wt && git apply $src/SEED/patch.diff >>$log 2>&1) || res_apply=FAIL
if [ $res_apply = ok ]; then
  (cd $wt && go build ./... >>$log 2>&1) && res_build=ok || res_build=FAIL
  if [ -n "$demo" ]; then
    (cd $wt && go test -count=1 -vet=off -run "^$dname\$" $dpkg >>$log 2>&1) && res_demo_with=pass || res_demo_with=fail
    rm -f $wt/$demo
  fi
  (cd $wt && go test -count=1 -vet=off -timeout 25m -skip TestWatchCoordinationWindows $pkgs >>$log 2>&1) && res_repo=pass || res_repo=FAIL
fi
git -C /repo worktree remove --force $wt
cp $src/SEED/patch.diff $out/patch.diff; [ -n "$demo" ] && cp $src/$demo $out/demo_test.go
cout=$(/verif/bin/vcheck $id --mutant $out/patch.diff --tier quick 2>&1); code=$?
res_check="exit$code"; [ $code -eq 1 ] && res_check=detected; [ $code -eq 0 ] && res_check=MISSED; [ $code -eq 2 ] && res_check=ERROR
what=$(echo "$cout" | grep -m1 'what:' | cut -c1-200)
echo "$cout" | tail -5 >> $log
SEEDROOT=$SEEDROOT OUTROOT=$OUTROOT python3 - "$id" "$demo" "$res_apply" "$res_build" "$res_demo_without" "$res_demo_with" "$res_repo" "$res_check" "$what" "$pkgs" <<'PY'
import json,sys
id,demo,ap,bu,dwo,dw,repo,chk,what,pkgs=sys.argv[1:11]
import os
SR=os.environ['SEEDROOT']; OR=os.environ['OUTROOT']
try: am=json.load(open(f'{SR}/{id}/SEED/meta.json'))
except Exception as e: am={"error":str(e)}
m={"property":id,"agent_meta":am,"demo_file":demo,"verified_by_maintainer":{"patch_applies":ap,"go_build":bu,"demo_without_patch":dwo,"demo_with_patch":dw,
 "repo_tests_of_touched_packages":repo,"repo_test_cmd":"go test -count=1 -vet=off -skip TestWatchCoordinationWindows "+pkgs.replace("\n"," ")},
 "our_check":{"cmd":f"./bin/vcheck {id} --mutant {OR}/{id}/patch.diff --tier quick","result":chk,"what":what}}
json.dump(m,open(f'{OR}/{id}/meta.json','w'),indent=1)
PY
echo "$id apply=$res_apply build=$res_build demo_without=$res_demo_without demo_with=$res_demo_with repo=$res_repo check=$res_check $what"
