#!/bin/bash
# usage: run_mutants.sh [--repo-tests] [ID ...]
# For every mutants/<ID>-<name>.patch: run `vcheck <ID> --mutant <name>` (expects exit 1 =
# detected). With --repo-tests also apply the patch in a scratch worktree of /repo and
# run the repository's own tests of the touched packages (expects them to pass).
cd "$(dirname "$0")"
export GOFLAGS=-mod=mod GOPROXY=off GOSUMDB=off GOTOOLCHAIN=local
REPOTESTS=0
if [ "$1" = "--repo-tests" ]; then REPOTESTS=1; shift; fi
IDS="$@"
[ -z "$IDS" ] && IDS=$(ls mutants/*.patch 2>/dev/null | sed 's|mutants/||; s|-.*||' | sort -u)
for id in $IDS; do
  for p in mutants/$id-*.patch; do
    [ -f "$p" ] || continue
    name=$(basename "$p" .patch); name=${name#$id-}
    tier=${TIER:-quick}
    case "$name" in *.thorough) tier=thorough;; esac
    out=$(./bin/vcheck $id --mutant $name --tier $tier 2>&1); code=$?
    det="MISSED(exit $code)"
    [ $code -eq 1 ] && det="detected"
    [ $code -eq 2 ] && det="ERROR"
    rt="-"
    if [ $REPOTESTS -eq 1 ]; then
      wt=/var/tmp/verif-mut-$$
      git -C /repo worktree add -q --detach $wt HEAD 2>/dev/null
      if (cd $wt && patch -p1 -s < /verif/$p); then
        pkgs=$(grep '^+++ ' $p | sed "s|^+++ [ab]/||; s|\t.*||" | xargs -n1 dirname | sort -u | sed 's|^|./|')
        if (cd $wt && go test -count=1 -vet=off $pkgs >/var/tmp/verif-mut-$$.log 2>&1); then rt="repo-tests-pass"; else rt="REPO-TESTS-FAIL"; fi
      else rt="PATCH-FAILED"; fi
      git -C /repo worktree remove --force $wt; rm -f /var/tmp/verif-mut-$$.log
    fi
    echo "$id $name $det $rt $(echo "$out" | grep -m1 'what:' | cut -c1-140)"
  done
done
