// Package vrep is the reporting side of every /verif harness: it counts what a run
// explored (evaluations, distinct non-trivial cases, states, transitions, outcomes),
// keeps a few written-out samples, collects violations with their replay data, and
// writes one JSON result file per process that cmd/vcheck merges into evidence.
//
// The package is injected into /repo as pkg/verifshim/vrep by a build overlay.
package vrep

import (
	"encoding/json"
	"fmt"
	"hash/fnv"
	"os"
	"runtime"
	"runtime/debug"
	"sort"
	"strconv"
	"strings"
	"sync"
	"time"
)

// Violation is one property violation found by a harness.
type Violation struct {
	// Fingerprint identifies the failing input / schedule class in a run-independent
	// way (scenario + deviation labels); known_findings.json matches on it.
	Fingerprint string `json:"fingerprint"`
	What        string `json:"what"`
	// Replay is whatever the harness needs to re-execute exactly this case.
	Replay any `json:"replay,omitempty"`
	// Kind/Size: when Kind is set only the smallest (Size, Fingerprint) violation of
	// that kind is kept (per process, and again by vcheck across processes), so the
	// reported counterexample is the minimal one of its class.
	Kind string `json:"kind,omitempty"`
	Size int    `json:"size,omitempty"`
}

// Result is what one harness process reports.
type Result struct {
	ID          string         `json:"id"`
	Unit        string         `json:"unit"`
	Tier        string         `json:"tier"`
	Shard       int            `json:"shard"`
	Shards      int            `json:"shards"`
	Evaluations int64          `json:"evaluations"`
	Distinct    int64          `json:"distinct_nontrivial"`
	States      int64          `json:"states"`
	Transitions int64          `json:"transitions"`
	Outcomes    []string       `json:"outcomes"`
	OutcomeN    int            `json:"outcome_count"`
	Samples     []any          `json:"samples"`
	Violations  []Violation    `json:"violations"`
	Exhaustive  bool           `json:"exhaustive"`
	Caps        []string       `json:"caps,omitempty"`
	Extra       map[string]any `json:"extra,omitempty"`
	// Sums are counters added up across processes (Extra values are not: for those
	// vcheck keeps the maximum of numbers and the first of everything else).
	Sums     map[string]int64 `json:"sums,omitempty"`
	Replayed int64            `json:"replayed_twice"`
	WallS    float64          `json:"wall_s"`
	Finished bool             `json:"finished"`
}

// TB is the part of testing.TB the reporter needs.
type TB interface {
	Logf(format string, args ...any)
	Fatalf(format string, args ...any)
}

// R is a concurrency-safe reporter.
type R struct {
	mu       sync.Mutex
	t        TB
	res      Result
	distinct map[uint64]struct{}
	states   map[uint64]struct{}
	outcomes map[string]int
	vseen    map[string]bool
	start    time.Time
	deadline time.Time
	out      string
	replay   json.RawMessage
}

// Start reads VERIF_TIER, VERIF_OUT, VERIF_SHARD ("i/n"), VERIF_DEADLINE_S and
// VERIF_REPLAY from the environment.
func Start(t TB, id, unit string) *R {
	r := &R{t: t, distinct: map[uint64]struct{}{}, states: map[uint64]struct{}{},
		outcomes: map[string]int{}, vseen: map[string]bool{}, start: time.Now()}
	r.res.ID, r.res.Unit = id, unit
	r.res.Tier = os.Getenv("VERIF_TIER")
	if r.res.Tier == "" {
		r.res.Tier = "quick"
	}
	r.res.Shards = 1
	if s := os.Getenv("VERIF_SHARD"); s != "" {
		p := strings.Split(s, "/")
		if len(p) == 2 {
			r.res.Shard, _ = strconv.Atoi(p[0])
			r.res.Shards, _ = strconv.Atoi(p[1])
		}
	}
	r.res.Exhaustive = true
	r.res.Extra = map[string]any{}
	r.res.Sums = map[string]int64{}
	r.out = os.Getenv("VERIF_OUT")
	d := 0
	if s := os.Getenv("VERIF_DEADLINE_S"); s != "" {
		d, _ = strconv.Atoi(s)
	}
	if d <= 0 {
		d = 3600
	}
	r.deadline = r.start.Add(time.Duration(d) * time.Second)
	if p := os.Getenv("VERIF_REPLAY"); p != "" {
		b, err := os.ReadFile(p)
		if err != nil {
			t.Fatalf("vrep: cannot read replay file: %v", err)
		}
		var f struct {
			Unit   string          `json:"unit"`
			Replay json.RawMessage `json:"replay"`
		}
		if err := json.Unmarshal(b, &f); err != nil {
			t.Fatalf("vrep: bad replay file: %v", err)
		}
		if f.Unit == unit {
			r.replay = f.Replay
		} else {
			r.replay = json.RawMessage("null")
		}
	}
	return r
}

func (r *R) Tier() string      { return r.res.Tier }
func (r *R) Thorough() bool    { return r.res.Tier == "thorough" }
func (r *R) Shard() (int, int) { return r.res.Shard, r.res.Shards }

// Mine reports whether work item k belongs to this process' shard.
func (r *R) Mine(k int) bool { return r.res.Shards <= 1 || k%r.res.Shards == r.res.Shard }

// ReplayData returns the replay payload when the process was started to re-execute
// one recorded violation (nil otherwise). "null" means: a replay is requested, but
// for another unit — the harness should do nothing.
func (r *R) ReplayData() json.RawMessage { return r.replay }

// Expired is true once the internal deadline passed: the harness stops exploring,
// reports exhaustive:false and exits 0 — a deadline is never a verdict.
func (r *R) Expired() bool {
	if time.Now().After(r.deadline) {
		r.Cap("deadline")
		return true
	}
	return false
}

func h64(s string) uint64 {
	h := fnv.New64a()
	h.Write([]byte(s))
	return h.Sum64()
}

func (r *R) Eval(n int) {
	r.mu.Lock()
	r.res.Evaluations += int64(n)
	r.mu.Unlock()
}

// Distinct records a non-trivial case by its canonical key; returns true when new.
func (r *R) Distinct(key string) bool {
	k := h64(key)
	r.mu.Lock()
	defer r.mu.Unlock()
	if _, ok := r.distinct[k]; ok {
		return false
	}
	r.distinct[k] = struct{}{}
	return true
}

// State records a canonical state key; returns true when it was not seen before.
func (r *R) State(key string) bool {
	k := h64(key)
	r.mu.Lock()
	defer r.mu.Unlock()
	if _, ok := r.states[k]; ok {
		return false
	}
	r.states[k] = struct{}{}
	return true
}

func (r *R) Transition(n int) {
	r.mu.Lock()
	r.res.Transitions += int64(n)
	r.mu.Unlock()
}

// Outcome records an observed outcome class (few, human readable).
func (r *R) Outcome(key string) {
	r.mu.Lock()
	r.outcomes[key]++
	r.mu.Unlock()
}

// Sample keeps the first few written-out cases.
func (r *R) Sample(v any) {
	r.mu.Lock()
	if len(r.res.Samples) < 5 {
		r.res.Samples = append(r.res.Samples, v)
	}
	r.mu.Unlock()
}

// Violation records a violation (deduplicated by fingerprint within the process).
func (r *R) Violation(fp, what string, replay any) {
	r.mu.Lock()
	defer r.mu.Unlock()
	if r.vseen[fp] {
		return
	}
	r.vseen[fp] = true
	if len(r.res.Violations) < 200 {
		r.res.Violations = append(r.res.Violations, Violation{Fingerprint: fp, What: what, Replay: replay})
	}
}

// ViolationMin records a violation of a class (kind); only the smallest case of each
// class survives. fp must be a canonical rendering of the failing input.
func (r *R) ViolationMin(kind string, size int, fp, what string, replay any) {
	r.mu.Lock()
	defer r.mu.Unlock()
	r.vseen["kind:"+kind] = true
	for i := range r.res.Violations {
		v := &r.res.Violations[i]
		if v.Kind == kind {
			if size < v.Size || size == v.Size && fp < v.Fingerprint {
				*v = Violation{Fingerprint: fp, What: what, Replay: replay, Kind: kind, Size: size}
			}
			return
		}
	}
	r.res.Violations = append(r.res.Violations, Violation{Fingerprint: fp, What: what, Replay: replay, Kind: kind, Size: size})
}

// Guard runs f and returns the recovered panic value (nil if none) and its stack.
func Guard(f func()) (p any, stack string) {
	defer func() {
		if x := recover(); x != nil {
			p = x
			stack = string(debug.Stack())
		}
	}()
	f()
	return nil, ""
}

// Parallel runs f(i) for i in [0,n) on `workers` goroutines.
func Parallel(workers, n int, f func(i int)) {
	if workers < 1 {
		workers = 1
	}
	var wg sync.WaitGroup
	var mu sync.Mutex
	next := 0
	for w := 0; w < workers; w++ {
		wg.Add(1)
		go func() {
			defer wg.Done()
			for {
				mu.Lock()
				i := next
				next++
				mu.Unlock()
				if i >= n {
					return
				}
				f(i)
			}
		}()
	}
	wg.Wait()
}

// Workers is the in-process parallelism harnesses should use (VERIF_WORKERS, default
// GOMAXPROCS).
func Workers() int {
	if s := os.Getenv("VERIF_WORKERS"); s != "" {
		if n, err := strconv.Atoi(s); err == nil && n > 0 {
			return n
		}
	}
	return runtime.GOMAXPROCS(0)
}

func (r *R) Violations() int {
	r.mu.Lock()
	defer r.mu.Unlock()
	return len(r.vseen)
}

// Cap records that a bound/time cap was hit: the run is not exhaustive.
func (r *R) Cap(reason string) {
	r.mu.Lock()
	defer r.mu.Unlock()
	r.res.Exhaustive = false
	for _, c := range r.res.Caps {
		if c == reason {
			return
		}
	}
	r.res.Caps = append(r.res.Caps, reason)
}

func (r *R) Set(key string, v any) {
	r.mu.Lock()
	r.res.Extra[key] = v
	r.mu.Unlock()
}

// Add adds n to a counter that is summed across processes.
func (r *R) Add(key string, n int64) {
	r.mu.Lock()
	r.res.Sums[key] += n
	r.mu.Unlock()
}

func (r *R) ReplayedTwice(n int) {
	r.mu.Lock()
	r.res.Replayed += int64(n)
	r.mu.Unlock()
}

// Finish writes the result file. It must be called exactly once, last.
func (r *R) Finish() {
	r.mu.Lock()
	defer r.mu.Unlock()
	r.res.Distinct = int64(len(r.distinct))
	r.res.States = int64(len(r.states))
	keys := make([]string, 0, len(r.outcomes))
	for k := range r.outcomes {
		keys = append(keys, k)
	}
	sort.Strings(keys)
	r.res.OutcomeN = len(keys)
	if len(keys) > 40 {
		keys = keys[:40]
	}
	for _, k := range keys {
		r.res.Outcomes = append(r.res.Outcomes, fmt.Sprintf("%s x%d", k, r.outcomes[k]))
	}
	r.res.WallS = time.Since(r.start).Seconds()
	r.res.Finished = true
	r.t.Logf("vrep %s/%s tier=%s shard=%d/%d evals=%d distinct=%d states=%d transitions=%d outcomes=%d violations=%d exhaustive=%v caps=%v wall=%.1fs",
		r.res.ID, r.res.Unit, r.res.Tier, r.res.Shard, r.res.Shards, r.res.Evaluations, r.res.Distinct,
		r.res.States, r.res.Transitions, r.res.OutcomeN, len(r.res.Violations), r.res.Exhaustive, r.res.Caps, r.res.WallS)
	for i, v := range r.res.Violations {
		if i < 5 {
			r.t.Logf("  violation: %s — %s", v.Fingerprint, v.What)
		}
	}
	if r.out == "" {
		return
	}
	b, err := json.MarshalIndent(&r.res, "", " ")
	if err != nil {
		r.t.Fatalf("vrep: marshal: %v", err)
	}
	if err := os.WriteFile(r.out, b, 0o644); err != nil {
		r.t.Fatalf("vrep: write: %v", err)
	}
}
