// Package vtime replaces "time" in instrumented files: the clock is vsched's virtual
// clock, timers and tickers fire only when the explorer advances it.
package vtime

import (
	"sync/atomic"
	"time"

	"github.com/keep-network/keep-core/pkg/verifshim/vsched"
)

type (
	Duration = time.Duration
	Time     = time.Time
	Month    = time.Month
	Location = time.Location
)

const (
	Nanosecond  = time.Nanosecond
	Microsecond = time.Microsecond
	Millisecond = time.Millisecond
	Second      = time.Second
	Minute      = time.Minute
	Hour        = time.Hour
	RFC3339     = time.RFC3339
)

var UTC = time.UTC

// Epoch is the wall-clock instant of virtual time zero.
var Epoch = time.Date(2024, 1, 1, 0, 0, 0, 0, time.UTC)

func Unix(sec, nsec int64) Time                { return time.Unix(sec, nsec) }
func ParseDuration(s string) (Duration, error) { return time.ParseDuration(s) }
func Date(y int, m Month, d, h, mi, s, ns int, l *Location) Time {
	return time.Date(y, m, d, h, mi, s, ns, l)
}

// offset is the adjustable clock of *sequential* harnesses: outside a scheduled vsched
// execution Now() returns Epoch+offset (zero unless a harness calls SetOffset, so the
// constant-Epoch behaviour other harnesses rely on is unchanged). Atomic because
// instrumented code may read the clock from several goroutines.
var offset atomic.Int64

// SetOffset sets the sequential clock to Epoch+d (used when no scheduler is active).
func SetOffset(d Duration) { offset.Store(int64(d)) }

// Offset returns the current sequential clock offset.
func Offset() Duration { return Duration(offset.Load()) }

func Now() Time {
	if !vsched.Active() {
		return Epoch.Add(Duration(offset.Load()))
	}
	return Epoch.Add(Duration(vsched.Now()))
}
func Since(t Time) Duration { return Now().Sub(t) }
func Until(t Time) Duration { return t.Sub(Now()) }

// SleepHook, when set, is told about every Sleep made outside a scheduled execution
// (which otherwise returns at once): sequential harnesses use it to let their fake
// environment move on while the code under test waits.
var SleepHook func(d Duration)

func Sleep(d Duration) {
	if !vsched.Active() {
		if h := SleepHook; h != nil {
			h(d)
		}
		return
	}
	if d <= 0 {
		vsched.Yield()
		return
	}
	vsched.SleepUntil(vsched.Now() + int64(d))
}

// Timer mirrors time.Timer.
type Timer struct {
	C      <-chan Time
	c      chan Time
	cancel func()
	fired  bool
	f      func()
}

func NewTimer(d Duration) *Timer {
	c := make(chan Time, 1)
	t := &Timer{C: c, c: c}
	t.arm(d)
	return t
}

func (t *Timer) arm(d Duration) {
	t.fired = false
	when := vsched.Now() + int64(d)
	t.cancel = vsched.AddTimer(when, 0, func() {
		t.fired = true
		if t.f != nil {
			f := t.f
			vsched.SpawnFromScheduler("afterfunc", f)
			return
		}
		select {
		case t.c <- Epoch.Add(Duration(when)):
		default:
		}
	})
}

func (t *Timer) Stop() bool {
	was := !t.fired
	t.cancel()
	t.fired = true
	return was
}

func (t *Timer) Reset(d Duration) bool {
	was := !t.fired
	t.cancel()
	t.arm(d)
	return was
}

func After(d Duration) <-chan Time { return NewTimer(d).C }

func AfterFunc(d Duration, f func()) *Timer {
	t := &Timer{f: f}
	t.arm(d)
	return t
}

// Ticker mirrors time.Ticker.
type Ticker struct {
	C      <-chan Time
	c      chan Time
	cancel func()
}

func NewTicker(d Duration) *Ticker {
	if d <= 0 {
		panic("non-positive interval for NewTicker")
	}
	c := make(chan Time, 1)
	t := &Ticker{C: c, c: c}
	t.cancel = vsched.AddTimer(vsched.Now()+int64(d), int64(d), func() {
		select {
		case t.c <- Epoch.Add(Duration(vsched.Now())):
		default:
		}
	})
	return t
}

func (t *Ticker) Stop() { t.cancel() }

func Tick(d Duration) <-chan Time { return NewTicker(d).C }
