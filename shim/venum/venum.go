// Package venum is the deviation-bounded choice explorer for sequential code: the
// harness body asks a *C for every environment answer; the explorer re-runs the body
// for every choice script within the deviation bound (stateless DFS with replay).
//
// Choose(n)  : a free n-way branch — every alternative is explored.
// Deviate(n) : alternative 0 is the default; any other answer costs one deviation.
//
// A script is the list of answers given at the successive choice points of one run.
// Replaying a prefix must meet the same points (same n, same kind): anything else is
// uncaptured nondeterminism and panics (never reported as a property violation).
package venum

import (
	"fmt"
	"strings"
	"sync"
)

type point struct {
	n     int
	dev   bool
	label string
}

// C is the chooser handed to one execution of the body.
type C struct {
	prefix  []int
	choices []int
	points  []point
	// Bound is the deviation bound of the exploration this run belongs to; Left is how
	// many deviations the script may still spend (harnesses may use it to skip work).
	Bound int
	used  int
}

func (c *C) next(n int, dev bool, label string) int {
	if n <= 0 {
		panic(fmt.Sprintf("venum: choice %q with n=%d", label, n))
	}
	i := len(c.choices)
	v := 0
	if i < len(c.prefix) {
		v = c.prefix[i]
		if v >= n {
			panic(fmt.Sprintf("venum: replay divergence at point %d (%s): choice %d >= n %d", i, label, v, n))
		}
	}
	c.choices = append(c.choices, v)
	c.points = append(c.points, point{n, dev, label})
	if dev && v != 0 {
		c.used++
	}
	return v
}

// Choose returns a value in [0,n); all alternatives are explored at no cost.
func (c *C) Choose(n int, label string) int { return c.next(n, false, label) }

// Deviate returns 0 unless the explorer spends a deviation on this point.
func (c *C) Deviate(n int, label string) int { return c.next(n, true, label) }

// Bool is Choose(2) as a boolean (false first).
func (c *C) Bool(label string) bool { return c.next(2, false, label) == 1 }

// Used reports the deviations spent so far in this run.
func (c *C) Used() int { return c.used }

// Script returns the answers given so far.
func (c *C) Script() []int { return append([]int{}, c.choices...) }

// Trace renders the non-default answers with their labels (stable fingerprint text).
func (c *C) Trace() string {
	var b strings.Builder
	for i, p := range c.points {
		if c.choices[i] != 0 {
			fmt.Fprintf(&b, "%s=%d;", p.label, c.choices[i])
		}
	}
	return b.String()
}

// FullTrace renders every answer with its label.
func (c *C) FullTrace() string {
	var b strings.Builder
	for i, p := range c.points {
		fmt.Fprintf(&b, "%s=%d;", p.label, c.choices[i])
	}
	return b.String()
}

// Stats of one exploration.
type Stats struct {
	Runs      int64
	Stopped   bool // stop() returned true before the space was exhausted
	MaxPoints int
}

// Options of one exploration.
type Options struct {
	Bound   int // maximum number of deviations per script
	Workers int // parallel in-process workers (body must be re-entrant); 0 = 1
	// Stop is polled between runs; returning true abandons the exploration.
	Stop func() bool
	// Shard/Shards partition the first-level subtrees over processes (Shards<=1: all).
	Shard, Shards int
}

// Replay runs the body once with exactly the given script.
func Replay(script []int, bound int, body func(c *C)) *C {
	c := &C{prefix: script, Bound: bound}
	body(c)
	return c
}

// Explore runs body for every script within the bound.
func Explore(o Options, body func(c *C)) Stats {
	if o.Workers <= 0 {
		o.Workers = 1
	}
	var (
		mu      sync.Mutex
		cond    = sync.NewCond(&mu)
		stack   [][]int
		active  int
		st      Stats
		stopped bool
		failure any
	)
	stack = append(stack, nil)
	first := true
	worker := func() {
		for {
			mu.Lock()
			for len(stack) == 0 && active > 0 && !stopped {
				cond.Wait()
			}
			if stopped || len(stack) == 0 {
				mu.Unlock()
				cond.Broadcast()
				return
			}
			prefix := stack[len(stack)-1]
			stack = stack[:len(stack)-1]
			active++
			isRoot := first
			first = false
			mu.Unlock()

			var c *C
			func() {
				defer func() {
					if r := recover(); r != nil {
						mu.Lock()
						if failure == nil {
							failure = fmt.Sprintf("%v (script %v)", r, prefix)
						}
						stopped = true
						mu.Unlock()
					}
				}()
				c = Replay(prefix, o.Bound, body)
			}()
			var succ [][]int
			if c != nil {
				cost := 0
				for i := 0; i < len(c.points); i++ {
					p := c.points[i]
					if i >= len(prefix) {
						cc := cost
						if p.dev {
							cc++
						}
						if cc <= o.Bound {
							for alt := p.n - 1; alt >= 1; alt-- {
								np := make([]int, i+1)
								copy(np, c.choices[:i])
								np[i] = alt
								succ = append(succ, np)
							}
						}
					}
					if p.dev && c.choices[i] != 0 {
						cost++
					}
				}
			}
			if isRoot && o.Shards > 1 {
				// first-level subtrees are dealt round-robin; the root run itself is
				// counted by shard 0 only (see Runs below).
				var mine [][]int
				for k, s := range succ {
					if k%o.Shards == o.Shard {
						mine = append(mine, s)
					}
				}
				succ = mine
			}
			mu.Lock()
			if c != nil {
				if !(isRoot && o.Shards > 1 && o.Shard != 0) {
					st.Runs++
				}
				if len(c.points) > st.MaxPoints {
					st.MaxPoints = len(c.points)
				}
			}
			stack = append(stack, succ...)
			active--
			if o.Stop != nil && !stopped && o.Stop() {
				stopped = true
				st.Stopped = true
			}
			mu.Unlock()
			cond.Broadcast()
		}
	}
	var wg sync.WaitGroup
	for i := 0; i < o.Workers; i++ {
		wg.Add(1)
		go func() { defer wg.Done(); worker() }()
	}
	wg.Wait()
	if failure != nil {
		panic(fmt.Sprintf("venum: harness failure: %v", failure))
	}
	if len(stack) > 0 {
		st.Stopped = true
	}
	return st
}

// ---- small combinatorial helpers used by harnesses ----

// Perms calls f with every permutation of 0..n-1 (f must not retain the slice).
func Perms(n int, f func(p []int) bool) {
	p := make([]int, n)
	for i := range p {
		p[i] = i
	}
	var rec func(k int) bool
	rec = func(k int) bool {
		if k == n {
			return f(p)
		}
		for i := k; i < n; i++ {
			p[k], p[i] = p[i], p[k]
			if !rec(k + 1) {
				p[k], p[i] = p[i], p[k]
				return false
			}
			p[k], p[i] = p[i], p[k]
		}
		return true
	}
	rec(0)
}

// Subsets calls f with every subset of 0..n-1 as a bitmask, ascending.
func Subsets(n int, f func(mask uint) bool) {
	for m := uint(0); m < 1<<uint(n); m++ {
		if !f(m) {
			return
		}
	}
}

// Tuples calls f with every tuple in [0,base)^n.
func Tuples(n, base int, f func(t []int) bool) {
	t := make([]int, n)
	for {
		if !f(t) {
			return
		}
		i := n - 1
		for i >= 0 {
			t[i]++
			if t[i] < base {
				break
			}
			t[i] = 0
			i--
		}
		if i < 0 {
			return
		}
	}
}
