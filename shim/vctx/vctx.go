// Package vctx replaces "context" in instrumented files: Done channels are closed
// through vsched (so that waiting on them is a scheduling point) and deadlines live on
// the virtual clock.
package vctx

import (
	"context"
	"time"

	"github.com/keep-network/keep-core/pkg/verifshim/vsched"
	"github.com/keep-network/keep-core/pkg/verifshim/vtime"
)

type (
	Context    = context.Context
	CancelFunc = context.CancelFunc
)

var (
	Canceled         = context.Canceled
	DeadlineExceeded = context.DeadlineExceeded
)

func Background() Context { return context.Background() }
func TODO() Context       { return context.TODO() }
func WithValue(parent Context, k, v any) Context {
	return context.WithValue(parent, k, v)
}

type cctx struct {
	parent   Context
	done     chan struct{}
	err      error
	children []*cctx
	deadline time.Time
	hasDl    bool
	stop     func()
}

func (c *cctx) Deadline() (time.Time, bool) {
	if c.hasDl {
		return c.deadline, true
	}
	return c.parent.Deadline()
}
func (c *cctx) Done() <-chan struct{} { return c.done }
func (c *cctx) Err() error            { return c.err }
func (c *cctx) Value(k any) any       { return c.parent.Value(k) }

func (c *cctx) cancel(err error) {
	if c.err != nil {
		return
	}
	c.err = err
	if c.stop != nil {
		c.stop()
	}
	vsched.Close(c.done)
	for _, ch := range c.children {
		ch.cancel(err)
	}
}

func findParent(p Context) *cctx {
	for {
		switch x := p.(type) {
		case *cctx:
			return x
		default:
			_ = x
			return nil
		}
	}
}

func newCtx(parent Context) *cctx {
	c := &cctx{parent: parent, done: make(chan struct{})}
	if p := findParent(parent); p != nil {
		if p.err != nil {
			c.cancel(p.err)
		} else {
			p.children = append(p.children, c)
		}
	} else if parent.Err() != nil {
		c.cancel(parent.Err())
	}
	return c
}

func WithCancel(parent Context) (Context, CancelFunc) {
	c := newCtx(parent)
	return c, func() { c.cancel(Canceled) }
}

func WithDeadline(parent Context, d time.Time) (Context, CancelFunc) {
	c := newCtx(parent)
	if c.err != nil {
		return c, func() {}
	}
	c.deadline, c.hasDl = d, true
	when := int64(d.Sub(vtime.Epoch))
	if vsched.Active() {
		if when <= vsched.Now() {
			c.cancel(DeadlineExceeded)
		} else {
			c.stop = vsched.AddTimer(when, 0, func() { c.stop = nil; c.cancel(DeadlineExceeded) })
		}
	}
	return c, func() { c.cancel(Canceled) }
}

func WithTimeout(parent Context, d time.Duration) (Context, CancelFunc) {
	return WithDeadline(parent, vtime.Now().Add(d))
}
