// Package vsync replaces "sync" in instrumented files: every blocking operation is a
// scheduling point of vsched. Outside a scheduled execution (vsched.Active()==false)
// the types fall back to real sync primitives so package-level init code keeps working.
package vsync

import (
	"sync"

	"github.com/keep-network/keep-core/pkg/verifshim/vsched"
)

type Locker = sync.Locker

// Mutex is sync.Mutex under the scheduler.
type Mutex struct {
	held bool
	real sync.Mutex
}

func (m *Mutex) Lock() {
	if !vsched.Active() {
		m.real.Lock()
		return
	}
	vsched.Block("mutex", func() bool { return !m.held })
	m.held = true
}

func (m *Mutex) TryLock() bool {
	if !vsched.Active() {
		return m.real.TryLock()
	}
	vsched.Yield()
	if m.held {
		return false
	}
	m.held = true
	return true
}

func (m *Mutex) Unlock() {
	if !vsched.Active() {
		if m.held { // unwinding after an aborted execution
			m.held = false
			return
		}
		m.real.Unlock()
		return
	}
	if !m.held {
		panic("sync: unlock of unlocked mutex")
	}
	m.held = false
}

// RWMutex is sync.RWMutex under the scheduler (no writer preference is modelled:
// a superset of Go's behaviours as far as safety is concerned).
type RWMutex struct {
	writer  bool
	readers int
	real    sync.RWMutex
}

func (m *RWMutex) Lock() {
	if !vsched.Active() {
		m.real.Lock()
		return
	}
	vsched.Block("rwmutex.Lock", func() bool { return !m.writer && m.readers == 0 })
	m.writer = true
}

func (m *RWMutex) Unlock() {
	if !vsched.Active() {
		if m.writer {
			m.writer = false
			return
		}
		m.real.Unlock()
		return
	}
	if !m.writer {
		panic("sync: Unlock of unlocked RWMutex")
	}
	m.writer = false
}

func (m *RWMutex) RLock() {
	if !vsched.Active() {
		m.real.RLock()
		return
	}
	vsched.Block("rwmutex.RLock", func() bool { return !m.writer })
	m.readers++
}

func (m *RWMutex) RUnlock() {
	if !vsched.Active() {
		if m.readers > 0 {
			m.readers--
			return
		}
		m.real.RUnlock()
		return
	}
	if m.readers <= 0 {
		panic("sync: RUnlock of unlocked RWMutex")
	}
	m.readers--
}

func (m *RWMutex) RLocker() Locker { return rlocker{m} }

type rlocker struct{ m *RWMutex }

func (r rlocker) Lock()   { r.m.RLock() }
func (r rlocker) Unlock() { r.m.RUnlock() }

// WaitGroup is sync.WaitGroup under the scheduler.
type WaitGroup struct {
	n    int
	real sync.WaitGroup
}

func (w *WaitGroup) Add(d int) {
	if !vsched.Active() {
		if w.n > 0 && d < 0 {
			w.n += d
			return
		}
		w.real.Add(d)
		return
	}
	w.n += d
	if w.n < 0 {
		panic("sync: negative WaitGroup counter")
	}
}
func (w *WaitGroup) Done() { w.Add(-1) }
func (w *WaitGroup) Wait() {
	if !vsched.Active() {
		w.real.Wait()
		return
	}
	vsched.Block("waitgroup", func() bool { return w.n == 0 })
}

// Once is sync.Once under the scheduler.
type Once struct {
	done, running bool
	real          sync.Once
}

func (o *Once) Do(f func()) {
	if !vsched.Active() {
		o.real.Do(f)
		return
	}
	vsched.Yield()
	if o.done {
		return
	}
	if o.running {
		vsched.Block("once", func() bool { return o.done })
		return
	}
	o.running = true
	defer func() { o.done = true }()
	f()
}

// Map is sync.Map under the scheduler: each operation is one atomic step preceded by
// a scheduling point.
type Map struct {
	m    map[any]any
	real sync.Map
}

func (m *Map) Load(k any) (any, bool) {
	if !vsched.Active() {
		return m.real.Load(k)
	}
	vsched.Yield()
	v, ok := m.m[k]
	return v, ok
}
func (m *Map) Store(k, v any) {
	if !vsched.Active() {
		m.real.Store(k, v)
		return
	}
	vsched.Yield()
	if m.m == nil {
		m.m = map[any]any{}
	}
	m.m[k] = v
}
func (m *Map) LoadOrStore(k, v any) (any, bool) {
	if !vsched.Active() {
		return m.real.LoadOrStore(k, v)
	}
	vsched.Yield()
	if m.m == nil {
		m.m = map[any]any{}
	}
	if old, ok := m.m[k]; ok {
		return old, true
	}
	m.m[k] = v
	return v, false
}
func (m *Map) Delete(k any) {
	if !vsched.Active() {
		m.real.Delete(k)
		return
	}
	vsched.Yield()
	delete(m.m, k)
}
func (m *Map) Range(f func(k, v any) bool) {
	if !vsched.Active() {
		m.real.Range(f)
		return
	}
	vsched.Yield()
	for _, k := range vsched.SortedAnyKeys(m.m) {
		if !f(k, m.m[k]) {
			return
		}
	}
}
