package vatomic

import "sync/atomic"

// Typed atomics (atomic.Int32 ... atomic.Pointer[T], atomic.Value): same operations, a
// scheduling point before each.

type Int32 struct{ v atomic.Int32 }

func (x *Int32) Load() int32        { point(); return x.v.Load() }
func (x *Int32) Store(n int32)      { point(); x.v.Store(n) }
func (x *Int32) Swap(n int32) int32 { point(); return x.v.Swap(n) }
func (x *Int32) Add(d int32) int32  { point(); return x.v.Add(d) }
func (x *Int32) CompareAndSwap(o, n int32) bool {
	point()
	return x.v.CompareAndSwap(o, n)
}

type Int64 struct{ v atomic.Int64 }

func (x *Int64) Load() int64        { point(); return x.v.Load() }
func (x *Int64) Store(n int64)      { point(); x.v.Store(n) }
func (x *Int64) Swap(n int64) int64 { point(); return x.v.Swap(n) }
func (x *Int64) Add(d int64) int64  { point(); return x.v.Add(d) }
func (x *Int64) CompareAndSwap(o, n int64) bool {
	point()
	return x.v.CompareAndSwap(o, n)
}

type Uint32 struct{ v atomic.Uint32 }

func (x *Uint32) Load() uint32         { point(); return x.v.Load() }
func (x *Uint32) Store(n uint32)       { point(); x.v.Store(n) }
func (x *Uint32) Swap(n uint32) uint32 { point(); return x.v.Swap(n) }
func (x *Uint32) Add(d uint32) uint32  { point(); return x.v.Add(d) }
func (x *Uint32) CompareAndSwap(o, n uint32) bool {
	point()
	return x.v.CompareAndSwap(o, n)
}

type Uint64 struct{ v atomic.Uint64 }

func (x *Uint64) Load() uint64         { point(); return x.v.Load() }
func (x *Uint64) Store(n uint64)       { point(); x.v.Store(n) }
func (x *Uint64) Swap(n uint64) uint64 { point(); return x.v.Swap(n) }
func (x *Uint64) Add(d uint64) uint64  { point(); return x.v.Add(d) }
func (x *Uint64) CompareAndSwap(o, n uint64) bool {
	point()
	return x.v.CompareAndSwap(o, n)
}

type Uintptr struct{ v atomic.Uintptr }

func (x *Uintptr) Load() uintptr          { point(); return x.v.Load() }
func (x *Uintptr) Store(n uintptr)        { point(); x.v.Store(n) }
func (x *Uintptr) Swap(n uintptr) uintptr { point(); return x.v.Swap(n) }
func (x *Uintptr) Add(d uintptr) uintptr  { point(); return x.v.Add(d) }
func (x *Uintptr) CompareAndSwap(o, n uintptr) bool {
	point()
	return x.v.CompareAndSwap(o, n)
}

type Bool struct{ v atomic.Bool }

func (x *Bool) Load() bool       { point(); return x.v.Load() }
func (x *Bool) Store(n bool)     { point(); x.v.Store(n) }
func (x *Bool) Swap(n bool) bool { point(); return x.v.Swap(n) }
func (x *Bool) CompareAndSwap(o, n bool) bool {
	point()
	return x.v.CompareAndSwap(o, n)
}

type Pointer[T any] struct{ v atomic.Pointer[T] }

func (x *Pointer[T]) Load() *T     { point(); return x.v.Load() }
func (x *Pointer[T]) Store(n *T)   { point(); x.v.Store(n) }
func (x *Pointer[T]) Swap(n *T) *T { point(); return x.v.Swap(n) }
func (x *Pointer[T]) CompareAndSwap(o, n *T) bool {
	point()
	return x.v.CompareAndSwap(o, n)
}

type Value struct{ v atomic.Value }

func (x *Value) Load() any      { point(); return x.v.Load() }
func (x *Value) Store(n any)    { point(); x.v.Store(n) }
func (x *Value) Swap(n any) any { point(); return x.v.Swap(n) }
func (x *Value) CompareAndSwap(o, n any) bool {
	point()
	return x.v.CompareAndSwap(o, n)
}
