// Package vatomic replaces "sync/atomic" in files instrumented with the "atomic"
// option: every operation is one atomic step preceded by a scheduling point.
package vatomic

import (
	"sync/atomic"

	"github.com/keep-network/keep-core/pkg/verifshim/vsched"
)

func point() {
	if vsched.Active() {
		vsched.Yield()
	}
}

func AddUint64(addr *uint64, delta uint64) uint64 { point(); return atomic.AddUint64(addr, delta) }
func AddInt64(addr *int64, delta int64) int64     { point(); return atomic.AddInt64(addr, delta) }
func AddUint32(addr *uint32, delta uint32) uint32 { point(); return atomic.AddUint32(addr, delta) }
func AddInt32(addr *int32, delta int32) int32     { point(); return atomic.AddInt32(addr, delta) }
func LoadUint64(addr *uint64) uint64              { point(); return atomic.LoadUint64(addr) }
func LoadInt64(addr *int64) int64                 { point(); return atomic.LoadInt64(addr) }
func LoadUint32(addr *uint32) uint32              { point(); return atomic.LoadUint32(addr) }
func LoadInt32(addr *int32) int32                 { point(); return atomic.LoadInt32(addr) }
func StoreUint64(addr *uint64, v uint64)          { point(); atomic.StoreUint64(addr, v) }
func StoreInt64(addr *int64, v int64)             { point(); atomic.StoreInt64(addr, v) }
func StoreUint32(addr *uint32, v uint32)          { point(); atomic.StoreUint32(addr, v) }
func StoreInt32(addr *int32, v int32)             { point(); atomic.StoreInt32(addr, v) }
func CompareAndSwapUint64(addr *uint64, o, n uint64) bool {
	point()
	return atomic.CompareAndSwapUint64(addr, o, n)
}
func CompareAndSwapInt64(addr *int64, o, n int64) bool {
	point()
	return atomic.CompareAndSwapInt64(addr, o, n)
}
func CompareAndSwapUint32(addr *uint32, o, n uint32) bool {
	point()
	return atomic.CompareAndSwapUint32(addr, o, n)
}
func CompareAndSwapInt32(addr *int32, o, n int32) bool {
	point()
	return atomic.CompareAndSwapInt32(addr, o, n)
}
