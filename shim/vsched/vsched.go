// Package vsched is a cooperative (baton) scheduler plus a preemption-bounded stateless
// DFS explorer (CHESS-style). Code under test is recompiled by /verif/instr so that its
// synchronisation operations call into this package; exactly one logical thread runs at
// any time and every scheduling decision is a recorded choice.
//
// Choice points of one execution, in order, form its script:
//   - thread choice at a scheduling point with >1 enabled thread (alternative 0 = keep
//     the running thread if it is still enabled, then ascending thread id; low-priority
//     threads and the virtual clock come last),
//   - select arm choice when >1 arm is ready,
//   - explicit Choose / Deviate calls made by the harness (environment answers).
//
// Costs: switching away from a still-enabled running thread costs one preemption;
// choosing a low-priority thread (or advancing the clock) while a normal thread is
// enabled costs one; a non-zero Deviate answer costs one; everything else is free.
// Explore enumerates every script whose total cost is within the bound.
package vsched

import (
	"fmt"
	"reflect"
	"runtime/debug"
	"sort"
	"strings"
)

type opKind int

const (
	opNone opKind = iota
	opYield
	opCond
	opRecv
	opSend
	opSelect
)

type selCase struct {
	send bool
	ch   uintptr
	rch  reflect.Value
	val  any
}

type thread struct {
	id      int
	name    string
	resume  chan struct{}
	op      opKind
	cond    func() bool
	what    string
	ch      uintptr
	rch     reflect.Value
	val     any
	cases   []selCase
	hasDef  bool
	chosen  int
	done    bool
	matched bool
	lowPrio bool
	daemon  bool
	selOK   bool
	started bool
}

type timer struct {
	when   int64
	seq    int
	fn     func()
	dead   bool
	period int64
}

type point struct {
	n        int
	runEn    bool // alternative 0 is the still-enabled running thread
	lowStart int  // alternatives >= lowStart cost one (0 = none)
	dev      bool // explicit Deviate point: any non-zero answer costs one
	label    string
}

type abortSentinel struct{}

// Sched is the state of one execution.
type Sched struct {
	threads  []*thread
	cur      *thread
	parked   chan struct{}
	prefix   []int
	choices  []int
	points   []point
	closed   map[uintptr]bool
	// closedRefs keeps every closed channel reachable until the execution ends: the
	// closed set is keyed by channel address, and a collected channel's address could be
	// reused by a new channel, which would then look closed.
	closedRefs []reflect.Value
	failed   any
	failedAt string
	Log      []string
	now      int64
	timers   []*timer
	tseq     int
	advances int
	steps    int
	abort    bool
	stop     bool
	opts     *Options

	// set at end of execution
	Deadlock   []string // descriptions of non-daemon threads blocked forever
	HorizonHit bool
	StepCapHit bool
}

// S is the current execution (one per process).
var S *Sched

// Active reports whether a scheduled execution is in progress.
func Active() bool { return S != nil && !S.abort }

// Options of an exploration.
type Options struct {
	Bound        int  // preemption/deviation bound
	Horizon      int  // maximum number of virtual-clock advances per execution (default 16)
	ClockPreempt bool // allow the clock to advance while normal threads are enabled (cost 1)
	MaxSteps     int  // scheduling steps per execution before it is cut (default 20000)
	Shard        int
	Shards       int
	Stop         func() bool // polled between executions
	MaxExecs     int64       // 0 = unlimited
}

func chID(ch any) (uintptr, reflect.Value) {
	v := reflect.ValueOf(ch)
	if !v.IsValid() || v.Kind() != reflect.Chan {
		panic(fmt.Sprintf("vsched: not a channel: %T", ch))
	}
	if v.IsNil() {
		return 0, v
	}
	return v.Pointer(), v
}

func (s *Sched) park(t *thread) {
	if s.abort {
		panic(abortSentinel{})
	}
	s.parked <- struct{}{}
	<-t.resume
	if s.abort {
		panic(abortSentinel{})
	}
}

func (s *Sched) spawn(name string, f func(), low, daemon bool) *thread {
	if s.abort {
		panic(abortSentinel{})
	}
	t := &thread{id: len(s.threads), name: name, resume: make(chan struct{}), op: opYield, lowPrio: low, daemon: daemon}
	s.threads = append(s.threads, t)
	go func() {
		<-t.resume
		defer func() {
			if r := recover(); r != nil {
				if _, ok := r.(abortSentinel); !ok && !s.abort && s.failed == nil {
					s.failed = r
					s.failedAt = string(debug.Stack())
				}
			}
			t.done = true
			t.op = opNone
			s.parked <- struct{}{}
		}()
		if s.abort {
			return
		}
		t.started = true
		f()
	}()
	return t
}

// Go spawns a logical thread; the spawn is a scheduling point.
func Go(f func()) {
	s := S
	s.spawn("", f, false, false)
	Yield()
}

// GoNamed spawns a named thread.
func GoNamed(name string, f func()) {
	s := S
	s.spawn(name, f, false, false)
	Yield()
}

// GoDaemon spawns a thread whose being blocked at the end is not a deadlock.
func GoDaemon(name string, f func()) {
	s := S
	s.spawn(name, f, false, true)
	Yield()
}

// GoLow spawns an environment thread that runs by default only when no normal thread
// is enabled (running it earlier costs one deviation).
func GoLow(name string, f func()) {
	s := S
	s.spawn(name, f, true, true)
	Yield()
}

// Yield is a pure scheduling point.
func Yield() {
	s := S
	if s == nil {
		return // outside a scheduled execution (sequential use of instrumented code)
	}
	t := s.cur
	t.op = opYield
	s.park(t)
}

// Block parks the running thread until cond() holds (evaluated by the scheduler while
// no thread runs). what describes the wait for deadlock reports.
func Block(what string, cond func() bool) {
	s := S
	t := s.cur
	t.op, t.cond, t.what = opCond, cond, what
	s.park(t)
	t.cond = nil
}

// Stop ends the execution after the current step (remaining threads are unwound).
func Stop() { S.stop = true }

// Logf appends to the observation log compared by the determinism gate.
func Logf(format string, a ...any) {
	if S != nil {
		S.Log = append(S.Log, fmt.Sprintf(format, a...))
	}
}

// ThreadID returns the id of the running logical thread.
func ThreadID() int { return S.cur.id }

// ---- explicit choices ----

func (s *Sched) choose(n int, p point) int {
	i := len(s.choices)
	c := 0
	if i < len(s.prefix) {
		c = s.prefix[i]
		if c >= n {
			panic(fmt.Sprintf("vsched: replay divergence at point %d (%s): choice %d >= n %d", i, p.label, c, n))
		}
	}
	p.n = n
	s.choices = append(s.choices, c)
	s.points = append(s.points, p)
	return c
}

// Choose is a free n-way environment choice.
func Choose(n int, label string) int {
	if n <= 1 {
		return 0
	}
	return S.choose(n, point{label: label})
}

// Deviate returns 0 unless the explorer spends one unit of the bound.
func Deviate(n int, label string) int {
	if n <= 1 {
		return 0
	}
	return S.choose(n, point{dev: true, label: label})
}

// ---- channels ----

func (s *Sched) findSender(ch uintptr, not *thread) *thread {
	if ch == 0 {
		return nil
	}
	for _, o := range s.threads {
		if o == not || o.done || o.matched {
			continue
		}
		if o.op == opSend && o.ch == ch {
			return o
		}
		if o.op == opSelect {
			for _, c := range o.cases {
				if c.send && c.ch == ch {
					return o
				}
			}
		}
	}
	return nil
}

func (s *Sched) findReceiver(ch uintptr, not *thread) *thread {
	if ch == 0 {
		return nil
	}
	for _, o := range s.threads {
		if o == not || o.done || o.matched {
			continue
		}
		if o.op == opRecv && o.ch == ch {
			return o
		}
		if o.op == opSelect {
			for _, c := range o.cases {
				if !c.send && c.ch == ch {
					return o
				}
			}
		}
	}
	return nil
}

func (s *Sched) recvReady(t *thread, ch uintptr, rch reflect.Value) bool {
	if ch == 0 {
		return false
	}
	return rch.Len() > 0 || s.closed[ch] || s.findSender(ch, t) != nil
}

func (s *Sched) sendReady(t *thread, ch uintptr, rch reflect.Value) bool {
	if ch == 0 {
		return false
	}
	// a parked receiver makes a send ready only through a rendezvous (empty buffer);
	// on a full buffered channel the receiver drains the buffer first (it is enabled
	// through Len>0) and the sender becomes enabled then.
	return s.closed[ch] || rch.Len() < rch.Cap() || rch.Len() == 0 && s.findReceiver(ch, t) != nil
}

func (s *Sched) enabled(t *thread) bool {
	if t.done {
		return false
	}
	if t.matched {
		return true
	}
	switch t.op {
	case opYield:
		return true
	case opCond:
		return t.cond()
	case opRecv:
		return s.recvReady(t, t.ch, t.rch)
	case opSend:
		return s.sendReady(t, t.ch, t.rch)
	case opSelect:
		if t.hasDef {
			return true
		}
		for _, c := range t.cases {
			if c.send && s.sendReady(t, c.ch, c.rch) || !c.send && s.recvReady(t, c.ch, c.rch) {
				return true
			}
		}
	}
	return false
}

func (s *Sched) doSend(t *thread, ch uintptr, rch reflect.Value, val any) {
	if s.closed[ch] {
		panic("send on closed channel")
	}
	if rch.Len() == 0 {
		if r := s.findReceiver(ch, t); r != nil {
			r.val, r.matched, r.selOK = val, true, true
			if r.op == opSelect {
				for i, c := range r.cases {
					if !c.send && c.ch == ch {
						r.chosen = i
						break
					}
				}
			}
			return
		}
	}
	elem := rch.Type().Elem()
	var rv reflect.Value
	if val == nil {
		rv = reflect.Zero(elem)
	} else {
		rv = reflect.ValueOf(val)
		if !rv.Type().AssignableTo(elem) {
			rv = rv.Convert(elem)
		}
	}
	rch.Send(rv)
}

func (s *Sched) doRecv(t *thread, ch uintptr, rch reflect.Value) (any, bool) {
	if rch.Len() > 0 {
		v, ok := rch.Recv()
		// a sender parked on the full buffer stays parked; it becomes enabled through
		// sendReady now that there is room.
		return v.Interface(), ok
	}
	if snd := s.findSender(ch, t); snd != nil {
		var val any
		if snd.op == opSend {
			val = snd.val
		} else {
			for i, c := range snd.cases {
				if c.send && c.ch == ch {
					val = c.val
					snd.chosen = i
					break
				}
			}
		}
		snd.matched = true
		return val, true
	}
	if s.closed[ch] {
		return nil, false
	}
	panic("vsched: doRecv: not ready")
}

// Send is `ch <- val`.
func Send(ch any, val any) {
	s := S
	t := s.cur
	id, v := chID(ch)
	t.op, t.ch, t.rch, t.val = opSend, id, v, val
	s.park(t)
	if t.matched {
		t.matched = false
		return
	}
	s.doSend(t, id, v, val)
}

func conv[T any](v any) T {
	if v == nil {
		var z T
		return z
	}
	if x, ok := v.(T); ok {
		return x
	}
	var z T
	rv := reflect.ValueOf(v)
	return rv.Convert(reflect.TypeOf(&z).Elem()).Interface().(T)
}

// Recv2 is `v, ok := <-ch`.
func Recv2[T any](ch <-chan T) (T, bool) {
	s := S
	t := s.cur
	id, v := chID(ch)
	t.op, t.ch, t.rch = opRecv, id, v
	s.park(t)
	if t.matched {
		t.matched = false
		return conv[T](t.val), true
	}
	x, ok := s.doRecv(t, id, v)
	return conv[T](x), ok
}

// Recv is `<-ch`.
func Recv[T any](ch <-chan T) T { x, _ := Recv2(ch); return x }

// Close is `close(ch)`.
func Close(ch any) {
	id, v := chID(ch)
	if S != nil {
		if S.closed[id] {
			panic("close of closed channel")
		}
		S.closed[id] = true
		S.closedRefs = append(S.closedRefs, v)
	}
	v.Close()
}

// Case is one arm of a select.
type Case struct {
	Send bool
	Ch   any
	Val  any
}

func R(ch any) Case        { return Case{Ch: ch} }
func W(ch any, v any) Case { return Case{Send: true, Ch: ch, Val: v} }

// Select returns the index of the chosen arm (-1 = default).
func Select(hasDefault bool, cs ...Case) int {
	s := S
	t := s.cur
	t.cases = t.cases[:0]
	for _, c := range cs {
		id, v := chID(c.Ch)
		t.cases = append(t.cases, selCase{send: c.Send, ch: id, rch: v, val: c.Val})
	}
	t.op, t.hasDef = opSelect, hasDefault
	s.park(t)
	if t.matched {
		t.matched = false
		return t.chosen
	}
	var ready []int
	for i, c := range t.cases {
		if c.send && s.sendReady(t, c.ch, c.rch) || !c.send && s.recvReady(t, c.ch, c.rch) {
			ready = append(ready, i)
		}
	}
	if len(ready) == 0 {
		if !hasDefault {
			panic("vsched: select resumed with no ready arm")
		}
		return -1
	}
	k := ready[0]
	if len(ready) > 1 {
		k = ready[s.choose(len(ready), point{label: "select"})]
	}
	c := t.cases[k]
	if c.send {
		s.doSend(t, c.ch, c.rch, c.val)
	} else {
		t.val, t.selOK = s.doRecv(t, c.ch, c.rch)
	}
	return k
}

// GotOf returns the value received by the last Select on this thread.
func GotOf[T any](ch <-chan T) T          { return conv[T](S.cur.val) }
func GotOf2[T any](ch <-chan T) (T, bool) { return conv[T](S.cur.val), S.cur.selOK }

// ---- virtual clock ----

// Now returns the virtual time in nanoseconds since the start of the execution.
func Now() int64 { return S.now }

// AddTimer registers fn to run (inside the scheduler, must not block) at virtual time
// when; period > 0 re-arms it. The returned func cancels it.
func AddTimer(when int64, period int64, fn func()) (cancel func()) {
	s := S
	s.tseq++
	tm := &timer{when: when, seq: s.tseq, fn: fn, period: period}
	s.timers = append(s.timers, tm)
	return func() { tm.dead = true }
}

// SleepUntil parks the running thread until the virtual clock reaches when.
func SleepUntil(when int64) {
	s := S
	woke := false
	AddTimer(when, 0, func() { woke = true })
	Block("sleep", func() bool { return woke })
	_ = s
}

func (s *Sched) nextTimer() *timer {
	var best *timer
	live := s.timers[:0]
	for _, tm := range s.timers {
		if tm.dead {
			continue
		}
		live = append(live, tm)
		if best == nil || tm.when < best.when || tm.when == best.when && tm.seq < best.seq {
			best = tm
		}
	}
	s.timers = live
	return best
}

func (s *Sched) clockEnabled() bool {
	return s.advances < s.opts.Horizon && s.nextTimer() != nil
}

// advance moves the clock to the next timer and fires every timer due at that instant.
func (s *Sched) advance() {
	tm := s.nextTimer()
	if tm == nil {
		return
	}
	s.advances++
	if tm.when > s.now {
		s.now = tm.when
	}
	for {
		tm := s.nextTimer()
		if tm == nil || tm.when > s.now {
			break
		}
		if tm.period > 0 {
			tm.when += tm.period
		} else {
			tm.dead = true
		}
		tm.fn()
	}
}

// ---- execution ----

func (s *Sched) describe(t *thread) string {
	n := t.name
	if n == "" {
		n = fmt.Sprintf("t%d", t.id)
	}
	switch t.op {
	case opCond:
		return n + ":" + t.what
	case opRecv:
		return n + ":recv"
	case opSend:
		return n + ":send"
	case opSelect:
		return n + ":select"
	}
	return n
}

func runOnce(prefix []int, o *Options, body func()) *Sched {
	s := &Sched{parked: make(chan struct{}), prefix: prefix, closed: map[uintptr]bool{}, opts: o}
	S = s
	main := s.spawn("main", body, false, false)
	s.cur = main
	main.resume <- struct{}{}
	wait := true
	for {
		if wait {
			<-s.parked
		}
		wait = true
		if s.failed != nil || s.stop {
			break
		}
		s.steps++
		if s.steps > o.MaxSteps {
			s.StepCapHit = true
			break
		}
		var en, low []*thread
		for _, t := range s.threads {
			if s.enabled(t) {
				if t.lowPrio {
					low = append(low, t)
				} else {
					en = append(en, t)
				}
			}
		}
		clock := s.clockEnabled()
		if len(en) == 0 && len(low) == 0 {
			if clock {
				// nobody runs: advance and re-evaluate enabledness without resuming anyone
				s.advance()
				wait = false
				continue
			}
			if s.nextTimer() != nil && s.advances >= o.Horizon {
				s.HorizonHit = true
			}
			break
		}
		sort.SliceStable(en, func(i, j int) bool {
			if en[i] == s.cur {
				return true
			}
			if en[j] == s.cur {
				return false
			}
			return en[i].id < en[j].id
		})
		sort.SliceStable(low, func(i, j int) bool {
			if len(en) == 0 {
				if low[i] == s.cur {
					return true
				}
				if low[j] == s.cur {
					return false
				}
			}
			return low[i].id < low[j].id
		})
		lowStart := 0
		if len(en) > 0 {
			lowStart = len(en)
		}
		alts := append(en, low...)
		nalt := len(alts)
		clockAlt := -1
		if clock && o.ClockPreempt {
			clockAlt = nalt
			nalt++
		}
		runEn := alts[0] == s.cur
		k := 0
		if nalt > 1 {
			k = s.choose(nalt, point{runEn: runEn, lowStart: lowStart, label: "sched"})
		}
		if k == clockAlt {
			s.advance()
			wait = false
			continue
		}
		s.cur = alts[k]
		s.cur.resume <- struct{}{}
	}
	// end of execution: record deadlock, unwind every thread still parked
	if s.failed == nil && !s.stop && !s.StepCapHit {
		for _, t := range s.threads {
			if !t.done && !t.daemon {
				s.Deadlock = append(s.Deadlock, s.describe(t))
			}
		}
	}
	s.abort = true
	for _, t := range s.threads {
		if !t.done {
			t.resume <- struct{}{}
			<-s.parked
		}
	}
	return s
}

// Failed returns the panic value (and stack) of a thread that crashed, if any.
func (s *Sched) Failed() (any, string) { return s.failed, s.failedAt }

// Choices returns the script of the execution.
func (s *Sched) Choices() []int { return append([]int{}, s.choices...) }

// Trace renders the non-default choices with labels.
func (s *Sched) Trace() string {
	var b strings.Builder
	for i, p := range s.points {
		if s.choices[i] != 0 {
			fmt.Fprintf(&b, "%d:%s=%d;", i, p.label, s.choices[i])
		}
	}
	return b.String()
}

// DevTrace renders only the explicit (Choose/Deviate) non-default answers: a
// schedule-independent fingerprint component.
func (s *Sched) DevTrace() string {
	var b strings.Builder
	for i, p := range s.points {
		if s.choices[i] != 0 && p.label != "sched" && p.label != "select" {
			fmt.Fprintf(&b, "%s=%d;", p.label, s.choices[i])
		}
	}
	return b.String()
}

func altCost(p point, alt int) int {
	if alt == 0 {
		return 0
	}
	if p.dev {
		return 1
	}
	if p.runEn {
		return 1
	}
	if p.lowStart > 0 && alt >= p.lowStart {
		return 1
	}
	return 0
}

// Stats of an exploration.
type Stats struct {
	Execs      int64
	Stopped    bool
	MaxPoints  int
	HorizonHit int64
	StepCapHit int64
	Deadlocks  int64
}

func (o *Options) defaults() {
	if o.Horizon == 0 {
		o.Horizon = 16
	}
	if o.MaxSteps == 0 {
		o.MaxSteps = 20000
	}
}

// Replay executes exactly one script.
func Replay(script []int, o Options, body func()) *Sched {
	o.defaults()
	s := runOnce(script, &o, body)
	S = nil
	return s
}

// Explore runs body under every script within the bound; check is called after each
// execution (on the explorer goroutine, no thread running).
//
// Sharding: the root execution and its direct alternatives (depth 0 and 1 of the DFS
// tree) are executed by every shard but counted and checked by shard 0 only; the
// depth-2 subtrees are dealt round-robin in DFS order, which is deterministic.
func Explore(o Options, body func(), check func(s *Sched)) Stats {
	o.defaults()
	var st Stats
	type item struct {
		prefix []int
		depth  int
	}
	stack := []item{{nil, 0}}
	deal := 0
	for len(stack) > 0 {
		if o.Stop != nil && o.Stop() || o.MaxExecs > 0 && st.Execs >= o.MaxExecs {
			st.Stopped = true
			break
		}
		it := stack[len(stack)-1]
		stack = stack[:len(stack)-1]
		prefix := it.prefix
		s := runOnce(prefix, &o, body)
		S = nil
		sharedNode := o.Shards > 1 && it.depth < 2
		if !(sharedNode && o.Shard != 0) {
			st.Execs++
			if s.HorizonHit {
				st.HorizonHit++
			}
			if s.StepCapHit {
				st.StepCapHit++
			}
			if len(s.Deadlock) > 0 {
				st.Deadlocks++
			}
			check(s)
		}
		if len(s.points) > st.MaxPoints {
			st.MaxPoints = len(s.points)
		}
		var succ []item
		cost := 0
		for i, p := range s.points {
			if i >= len(prefix) {
				for alt := 1; alt < p.n; alt++ {
					if cost+altCost(p, alt) > o.Bound {
						continue
					}
					if o.Shards > 1 && it.depth == 1 {
						mine := deal%o.Shards == o.Shard
						deal++
						if !mine {
							continue
						}
					}
					np := make([]int, i+1)
					copy(np, s.choices[:i])
					np[i] = alt
					succ = append(succ, item{np, it.depth + 1})
				}
			}
			cost += altCost(p, s.choices[i])
		}
		// push in reverse so that the first alternative is explored first
		for i := len(succ) - 1; i >= 0; i-- {
			stack = append(stack, succ[i])
		}
	}
	return st
}

// SameRun reports whether two executions of the same script observed the same thing.
func SameRun(a, b *Sched) bool {
	if len(a.choices) != len(b.choices) || len(a.Log) != len(b.Log) {
		return false
	}
	for i := range a.choices {
		if a.choices[i] != b.choices[i] || a.points[i].n != b.points[i].n {
			return false
		}
	}
	for i := range a.Log {
		if a.Log[i] != b.Log[i] {
			return false
		}
	}
	return true
}

// SpawnFromScheduler creates a thread from inside a timer callback (scheduler context:
// no thread is running, so there is no spawn scheduling point).
func SpawnFromScheduler(name string, f func()) {
	S.spawn(name, f, false, true)
}

// SortedAnyKeys returns the keys of m in a canonical order.
func SortedAnyKeys(m map[any]any) []any {
	ks := make([]any, 0, len(m))
	for k := range m {
		ks = append(ks, k)
	}
	sort.Slice(ks, func(i, j int) bool { return fmt.Sprint(ks[i]) < fmt.Sprint(ks[j]) })
	return ks
}

// MapOrder returns the keys of m in the order the explorer decides: ascending by
// default; every other order offered costs one deviation. For <=3 keys all
// permutations are offered, above that: descending and the rotations.
func MapOrder[K comparable, V any](m map[K]V) []K {
	ks := make([]K, 0, len(m))
	for k := range m {
		ks = append(ks, k)
	}
	sort.Slice(ks, func(i, j int) bool { return lessAny(ks[i], ks[j]) })
	if len(ks) < 2 || MapChooser == nil {
		return ks
	}
	n := len(ks)
	var orders [][]int
	if n <= 3 {
		permute(n, func(p []int) { orders = append(orders, append([]int{}, p...)) })
	} else {
		id := make([]int, n)
		desc := make([]int, n)
		for i := range id {
			id[i] = i
			desc[i] = n - 1 - i
		}
		orders = append(orders, id, desc)
		for r := 1; r < n; r++ {
			rot := make([]int, n)
			for i := range rot {
				rot[i] = (i + r) % n
			}
			orders = append(orders, rot)
		}
	}
	c := MapChooser(len(orders), "maporder")
	out := make([]K, n)
	for i, j := range orders[c] {
		out[i] = ks[j]
	}
	return out
}

// MapChooser, when set, decides map iteration orders (a Deviate-style chooser).
var MapChooser func(n int, label string) int

func permute(n int, f func(p []int)) {
	p := make([]int, n)
	for i := range p {
		p[i] = i
	}
	// lexicographic order, identity first
	for {
		f(p)
		i := n - 2
		for i >= 0 && p[i] > p[i+1] {
			i--
		}
		if i < 0 {
			return
		}
		j := n - 1
		for p[j] < p[i] {
			j--
		}
		p[i], p[j] = p[j], p[i]
		for a, b := i+1, n-1; a < b; a, b = a+1, b-1 {
			p[a], p[b] = p[b], p[a]
		}
	}
}

func lessAny(a, b any) bool {
	va, vb := reflect.ValueOf(a), reflect.ValueOf(b)
	switch va.Kind() {
	case reflect.Int, reflect.Int8, reflect.Int16, reflect.Int32, reflect.Int64:
		return va.Int() < vb.Int()
	case reflect.Uint, reflect.Uint8, reflect.Uint16, reflect.Uint32, reflect.Uint64, reflect.Uintptr:
		return va.Uint() < vb.Uint()
	case reflect.String:
		return va.String() < vb.String()
	}
	return fmt.Sprint(a) < fmt.Sprint(b)
}

// LoopBudgetExceeded is the panic value raised by LoopHook.
type LoopBudgetExceeded struct{ Site string }

var (
	loopBudget int
	loopCount  int
)

// ResetLoops arms the loop budget: more than budget iterations (summed over all hooked
// loops) until the next ResetLoops raise LoopBudgetExceeded. budget 0 disables.
func ResetLoops(budget int) { loopBudget, loopCount = budget, 0 }

// LoopCount returns the iterations counted since the last ResetLoops.
func LoopCount() int { return loopCount }

// LoopHook is inserted at the top of every for body of files instrumented with "loops".
func LoopHook(site string) {
	if loopBudget <= 0 {
		return
	}
	loopCount++
	if loopCount > loopBudget {
		loopBudget = 0
		panic(LoopBudgetExceeded{site})
	}
}

// Cost returns the number of preemptions/deviations the execution's script spent.
func (s *Sched) Cost() int {
	c := 0
	for i, p := range s.points {
		c += altCost(p, s.choices[i])
	}
	return c
}

// Advances returns how often the virtual clock advanced.
func (s *Sched) Advances() int { return s.advances }
